//go:build verif

package server

import "github.com/bmeg/grip/jobstorage"

// VerifSetJobStorage injects the job storage that Serve() would create.
// (verification hook; added to the package by build overlay only)
func (server *GripServer) VerifSetJobStorage(j jobstorage.JobStorage) {
	server.jStorage = j
}
