//go:build verif

package mongo

import (
	"github.com/bmeg/grip/gripql"
	"go.mongodb.org/mongo-driver/bson"
)

// VerifConvertHasExpression exposes the has-expression to $match translation.
// (verification hook; added to the package by build overlay only)
func VerifConvertHasExpression(stmt *gripql.HasExpression) bson.M {
	return convertHasExpression(stmt, false)
}
