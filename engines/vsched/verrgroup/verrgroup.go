// Package verrgroup replaces golang.org/x/sync/errgroup in instrumented files.
package verrgroup

import (
	"context"

	vs "github.com/bmeg/grip/verifsched"
)

// Group mirrors errgroup.Group.
type Group struct {
	cancel func()
	wg     vs.WGState
	err    error
}

// WithContext mirrors errgroup.WithContext.
func WithContext(ctx context.Context) (*Group, context.Context) {
	ctx, cancel := context.WithCancel(ctx)
	return &Group{cancel: cancel}, ctx
}

// Go mirrors errgroup.Group.Go.
func (g *Group) Go(f func() error) {
	g.wg.Add(1)
	vs.Go(func() {
		defer g.wg.Done()
		if err := f(); err != nil {
			if g.err == nil {
				g.err = err
				if g.cancel != nil {
					g.cancel()
				}
			}
		}
	})
}

// Wait mirrors errgroup.Group.Wait.
func (g *Group) Wait() error {
	g.wg.Wait()
	if g.cancel != nil {
		g.cancel()
	}
	return g.err
}
