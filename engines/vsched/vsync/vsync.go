// Package vsync replaces "sync" in instrumented files: same API, scheduler aware.
package vsync

import (
	"sync"

	vs "github.com/bmeg/grip/verifsched"
)

// Mutex is a scheduler-aware mutex.
type Mutex struct{ s vs.MutexState }

func (m *Mutex) Lock()   { m.s.Lock() }
func (m *Mutex) Unlock() { m.s.Unlock() }

// RWMutex: readers are treated as exclusive lockers (fewer interleavings, never an invented one).
type RWMutex struct{ s vs.MutexState }

func (m *RWMutex) Lock()    { m.s.Lock() }
func (m *RWMutex) Unlock()  { m.s.Unlock() }
func (m *RWMutex) RLock()   { m.s.Lock() }
func (m *RWMutex) RUnlock() { m.s.Unlock() }

// WaitGroup is a scheduler-aware wait group.
type WaitGroup struct{ s vs.WGState }

func (w *WaitGroup) Add(d int) { w.s.Add(d) }
func (w *WaitGroup) Done()     { w.s.Done() }
func (w *WaitGroup) Wait()     { w.s.Wait() }

// Map is sync.Map; for the race detector every call on it is ordered with every other call on the same
// map (one lock per map: more happens-before edges than the real type promises, never fewer).
type Map struct {
	m sync.Map
	o vs.SyncObj
}

func (m *Map) Load(k any) (any, bool)           { vs.SyncOp(&m.o); return m.m.Load(k) }
func (m *Map) Store(k, v any)                   { vs.SyncOp(&m.o); m.m.Store(k, v) }
func (m *Map) LoadOrStore(k, v any) (any, bool) { vs.SyncOp(&m.o); return m.m.LoadOrStore(k, v) }
func (m *Map) LoadAndDelete(k any) (any, bool)  { vs.SyncOp(&m.o); return m.m.LoadAndDelete(k) }
func (m *Map) Delete(k any)                     { vs.SyncOp(&m.o); m.m.Delete(k) }
func (m *Map) Swap(k, v any) (any, bool)        { vs.SyncOp(&m.o); return m.m.Swap(k, v) }
func (m *Map) CompareAndSwap(k, o, n any) bool  { vs.SyncOp(&m.o); return m.m.CompareAndSwap(k, o, n) }
func (m *Map) CompareAndDelete(k, o any) bool   { vs.SyncOp(&m.o); return m.m.CompareAndDelete(k, o) }
func (m *Map) Range(f func(k, v any) bool) {
	vs.SyncOp(&m.o)
	m.m.Range(func(k, v any) bool { r := f(k, v); vs.SyncOp(&m.o); return r })
}

// Once is sync.Once; the completion of the first Do is ordered before the return of every Do.
type Once struct {
	once sync.Once
	o    vs.SyncObj
}

func (o *Once) Do(f func()) {
	o.once.Do(func() { f(); vs.SyncOp(&o.o) })
	vs.SyncOp(&o.o)
}

type Pool = sync.Pool
type Locker = sync.Locker
