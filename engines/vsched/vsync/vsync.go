// Package vsync replaces "sync" in instrumented files: same API, scheduler aware.
package vsync

import (
	"sync"

	vs "github.com/bmeg/grip/verifsched"
)

// Mutex is a scheduler-aware mutex.
type Mutex struct{ s vs.MutexState }

func (m *Mutex) Lock()   { m.s.Lock() }
func (m *Mutex) Unlock() { m.s.Unlock() }

// RWMutex: readers are treated as exclusive lockers (fewer interleavings, never an invented one).
type RWMutex struct{ s vs.MutexState }

func (m *RWMutex) Lock()    { m.s.Lock() }
func (m *RWMutex) Unlock()  { m.s.Unlock() }
func (m *RWMutex) RLock()   { m.s.Lock() }
func (m *RWMutex) RUnlock() { m.s.Unlock() }

// WaitGroup is a scheduler-aware wait group.
type WaitGroup struct{ s vs.WGState }

func (w *WaitGroup) Add(d int) { w.s.Add(d) }
func (w *WaitGroup) Done()     { w.s.Done() }
func (w *WaitGroup) Wait()     { w.s.Wait() }

// Map, Once, Pool pass through (sequentially consistent objects without blocking).
type Map = sync.Map
type Once = sync.Once
type Pool = sync.Pool
type Locker = sync.Locker
