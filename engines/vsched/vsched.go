// Package verifsched is the controlled cooperative scheduler that the
// instrumenter (tools/instr) injects into grip's concurrency-bearing sources.
// It is mapped into the grip module by a build overlay as
// github.com/bmeg/grip/verifsched; nothing of it is committed to /repo.
//
// With no execution active (X == nil) every hook is a no-op / pass-through, so
// an instrumented binary behaves like the original.
package verifsched

import (
	"fmt"
	"hash/fnv"
	"reflect"
	"runtime"
	"sort"
	"strings"
	"sync"
	"time"
)

type opKind int

const (
	opStart opKind = iota
	opSend
	opRecv
	opPoll
	opClose
	opLock
	opSleep
	opPoint
	opWait
	opResume
)

var kindNames = []string{"start", "send", "recv", "poll", "close", "lock", "sleep", "point", "wait", "resume"}

type op struct {
	kind opKind
	ch   uintptr
	cid  uint64
	site string
	rv   reflect.Value
	mu   *MutexState
	wg   *WGState
}

// G is a controlled goroutine.
type G struct {
	id            string
	wake          chan struct{}
	pend          op
	hash          uint64
	fruitless     map[uint64]bool
	sleepKeys     map[uint64]bool // keys produced by Sleep (never counted as polls)
	cycled        bool            // completed a full pass of fruitless operations since anybody last progressed
	lastFruitless bool
	done          bool
	spawnN        int
	newN          int
	abort         bool
	lastUnlock    *MutexState
	lastVer       map[*MutexState]uint64
	spinLock      bool
	realID        int64
	// happens-before race detection (race.go)
	idx     int
	vc      vclock
	syncSeq uint64
	// lockSpins counts consecutive re-locks of the mutex the goroutine itself released last, with nobody
	// else progressing in between (a spin-lock loop does that for ever, a loop that locks once per element
	// a bounded number of times)
	lockSpins int
}

type chanInfo struct {
	cid    uint64
	msgs   []uint64
	closed bool
	ext    bool // not created under the scheduler (e.g. ctx.Done())
	// race detection: clocks carried by the queued messages, by the receives (capacity edge) and by close
	msgVC   []vclock
	recvVC  []vclock
	sent    int
	closeVC vclock
}

// Point is one scheduling decision.
type Point struct {
	Enabled []string
	RunIdx  int
	Key     uint64
	Pruned  bool
	Yield   bool // the running goroutine had just yielded (switching is free)
}

// Exec is one controlled execution.
type Exec struct {
	order    []*G
	cur      *G
	chans    map[uintptr]*chanInfo
	prefix   []int
	Choices  []int
	Points   []Point
	Steps    int
	Status   string // done deadlock spin crash steplimit replay-divergence unsupported lost-control
	Detail   string
	Leaked   bool
	Out      []string
	Trace    []string
	mainDone chan struct{}
	wg       sync.WaitGroup
	cacheHit bool
	// Fresh: under iterative bounding the schedules of the lower bounds are run again at every higher
	// bound; an execution is fresh when it uses exactly the current bound's number of preemptions
	Fresh       bool
	ex          *Explorer
	CapMap      func(n int, site string) int
	Clock       int64
	ClockChoice bool
	keepTrace   bool
	StepLimit   int
	mu          sync.Mutex
	finished    bool
	// race detection (race.go)
	race   bool
	shadow map[uintptr]*cell
	pins   []interface{}
	Races  map[string]bool
	kvVC   vclock
	ioVC   vclock
	ctxVC  vclock
}

// X is the current execution (nil = scheduler off).
var X *Exec

func h64(parts ...interface{}) uint64 {
	h := fnv.New64a()
	fmt.Fprint(h, parts...)
	return h.Sum64()
}

type abortT struct{}

// Active tells whether a controlled execution is running.
func Active() bool { return X != nil }

func enter() (*Exec, *G) {
	x := X
	if x == nil {
		return nil, nil
	}
	if x.Status != "" {
		panic(abortT{})
	}
	return x, x.cur
}

// markFruitless records an operation that changed nothing (a poll that took
// default, a sleep, a spin-lock). Meeting the same fruitless operation twice
// without anybody progressing in between means the goroutine completed a whole
// polling pass in vain: it becomes a yielder.
func (g *G) markFruitless(key uint64) {
	if X != nil && X.keepTrace {
		X.Trace = append(X.Trace, fmt.Sprintf("%s fruitless %x (cycled-before=%v known=%v)", g.id, key, g.cycled, g.fruitless[key]))
	}
	if g.fruitless[key] {
		g.cycled = true
	} else {
		g.fruitless[key] = true
	}
	g.lastFruitless = true
}

// ---------------------------------------------------------------- hooks

// Go spawns a controlled goroutine (plain `go f()` when the scheduler is off).
func Go(f func()) {
	x, parent := enter()
	if x == nil {
		go f()
		return
	}
	x.wg.Add(1)
	parent.spawnN++
	g := &G{id: fmt.Sprintf("%s.%d", parent.id, parent.spawnN), wake: make(chan struct{}), fruitless: map[uint64]bool{}, lastVer: map[*MutexState]uint64{}}
	g.hash = h64("spawn", parent.hash, parent.spawnN)
	parent.hash = h64(parent.hash, "go", parent.spawnN)
	g.pend = op{kind: opStart}
	if x.race {
		g.idx = len(x.order)
		g.vc = append(parent.vc.clone(), make(vclock, g.idx+1-len(parent.vc))...)
		g.vc[g.idx] = 1
		parent.tick()
	}
	x.order = append(x.order, g)
	go x.runG(g, f)
}

func (x *Exec) runG(g *G, f func()) {
	defer x.wg.Done()
	<-g.wake
	if g.abort || x.Status != "" {
		return
	}
	defer func() {
		if r := recover(); r != nil {
			if _, ok := r.(abortT); ok {
				return
			}
			x.crash(r)
		}
	}()
	f()
	g.done = true
	x.progress(g)
	x.switchFrom(g, true)
}

func (x *Exec) crash(r interface{}) {
	if x.Status != "" {
		return
	}
	x.Status = "crash"
	buf := make([]byte, 1<<14)
	n := runtime.Stack(buf, false)
	site := ""
	for _, l := range strings.Split(string(buf[:n]), "\n") {
		if strings.HasPrefix(l, "github.com/bmeg/grip/") && !strings.Contains(l, "verifsched") {
			site = strings.TrimSpace(l)
			if j := strings.LastIndex(site, "("); j > 0 {
				site = site[:j]
			}
			break
		}
	}
	x.Detail = fmt.Sprintf("panic: %v @ %s", r, strings.TrimPrefix(site, "github.com/bmeg/grip/"))
	x.finish()
}

func (x *Exec) park(g *G, o op) {
	g.pend = o
	g.syncSeq++
	x.switchFrom(g, false)
	if g.abort || x.Status != "" {
		panic(abortT{})
	}
}

func (x *Exec) chanOf(ch interface{}, site string) (uintptr, reflect.Value, *chanInfo) {
	rv := reflect.ValueOf(ch)
	p := rv.Pointer()
	ci := x.chans[p]
	if ci == nil {
		ci = &chanInfo{cid: h64("ext", site), ext: true}
		x.chans[p] = ci
	}
	return p, rv, ci
}

// NewChan registers a channel at creation: id = (creator causal hash, creator-local sequence).
func NewChan[C any](c C) C {
	x, g := enter()
	if x == nil {
		return c
	}
	g.newN++
	rv := reflect.ValueOf(c)
	x.chans[rv.Pointer()] = &chanInfo{cid: h64("chan", g.hash, g.newN)}
	return c
}

// Cap maps a literal channel capacity (identity unless the harness scales capacities).
func Cap(n int, site string) int {
	x := X
	if x == nil || x.CapMap == nil {
		return n
	}
	return x.CapMap(n, site)
}

func (x *Exec) trace(g *G, what string) {
	if x.keepTrace {
		x.Trace = append(x.Trace, g.id+" "+what)
	}
}

// PreSend must be called right before `ch <- v`.
func PreSend(ch interface{}, site string) {
	x, g := enter()
	if x == nil {
		return
	}
	p, rv, ci := x.chanOf(ch, site)
	if rv.Cap() == 0 && !ci.closed {
		x.unsupported("send on an unbuffered channel at " + site)
	}
	x.park(g, op{kind: opSend, ch: p, cid: ci.cid, site: site, rv: rv})
	id := h64("msg", g.hash, len(ci.msgs))
	ci.msgs = append(ci.msgs, id)
	if x.race {
		if c := rv.Cap(); ci.sent >= c && ci.sent-c < len(ci.recvVC) {
			x.acquire(g, ci.recvVC[ci.sent-c])
		}
		ci.sent++
		ci.msgVC = append(ci.msgVC, g.vc.clone())
		g.tick()
	}
	g.hash = h64(g.hash, "send", ci.cid)
	g.fruitless = map[uint64]bool{}
	x.trace(g, "send "+site)
	x.progress(g)
}

// PreRecv must be called right before a blocking receive (and before/inside every iteration of range).
func PreRecv(ch interface{}, site string) {
	x, g := enter()
	if x == nil {
		return
	}
	p, rv, ci := x.chanOf(ch, site)
	if ci.ext {
		x.unsupported("blocking receive on a channel not created under the scheduler at " + site)
	}
	if rv.Cap() == 0 && !ci.closed {
		x.unsupported("receive on an unbuffered channel at " + site)
	}
	x.park(g, op{kind: opRecv, ch: p, cid: ci.cid, site: site, rv: rv})
	x.recvSync(g, ci)
	if len(ci.msgs) > 0 {
		id := ci.msgs[0]
		ci.msgs = ci.msgs[1:]
		g.hash = h64(g.hash, "recv", ci.cid, id)
	} else {
		g.hash = h64(g.hash, "recvclosed", ci.cid)
	}
	g.fruitless = map[uint64]bool{}
	x.trace(g, "recv "+site)
	x.progress(g)
}

// PrePoll must be called right before a single-case select with default.
func PrePoll(ch interface{}, site string) {
	x, g := enter()
	if x == nil {
		return
	}
	p, rv, ci := x.chanOf(ch, site)
	x.park(g, op{kind: opPoll, ch: p, cid: ci.cid, site: site, rv: rv})
}

// Taken is the first statement of the communication arm of a polled select.
func Taken(ch interface{}, site string) {
	x, g := enter()
	if x == nil {
		return
	}
	_, _, ci := x.chanOf(ch, site)
	x.recvSync(g, ci)
	if len(ci.msgs) > 0 {
		id := ci.msgs[0]
		ci.msgs = ci.msgs[1:]
		g.hash = h64(g.hash, "polled", ci.cid, id)
	} else {
		g.hash = h64(g.hash, "polledclosed", ci.cid)
	}
	g.fruitless = map[uint64]bool{}
	x.trace(g, "poll-taken "+site)
	x.progress(g)
}

// Default is the first statement of the default arm of a polled select.
func Default(ch interface{}, site string) {
	x, g := enter()
	if x == nil {
		return
	}
	p, rv, ci := x.chanOf(ch, site)
	if x.keepTrace {
		x.Trace = append(x.Trace, fmt.Sprintf("%s poll-default %s chan=%x cid=%x ext=%v len=%d", g.id, site, p, ci.cid, ci.ext, rv.Len()))
	}
	g.markFruitless(h64("default", ci.cid, site))
}

// PreClose must be called right before close(ch).
func PreClose(ch interface{}, site string) {
	x, g := enter()
	if x == nil {
		return
	}
	p, rv, ci := x.chanOf(ch, site)
	x.park(g, op{kind: opClose, ch: p, cid: ci.cid, site: site, rv: rv})
	ci.closed = true
	if x.race {
		x.release(g, &ci.closeVC)
	}
	g.hash = h64(g.hash, "close", ci.cid)
	g.fruitless = map[uint64]bool{}
	x.trace(g, "close "+site)
	x.progress(g)
}

// CloseDeferred replaces `defer close(ch)`.
func CloseDeferred(ch interface{}, site string) {
	if X != nil && X.Status != "" {
		// unwinding an aborted execution: still close, quietly
		defer func() { recover() }()
		reflect.ValueOf(ch).Close()
		return
	}
	PreClose(ch, site)
	reflect.ValueOf(ch).Close()
}

// Sleep replaces time.Sleep: a yield that advances the virtual clock.
func Sleep(d time.Duration, site string) {
	x, g := enter()
	if x == nil {
		time.Sleep(d)
		return
	}
	x.park(g, op{kind: opSleep, site: site})
	x.Clock += int64(d)
	// the same Sleep statement may follow several different polls of one pass: it only closes a
	// cycle when nothing new was polled since its previous execution
	// (sleep keys themselves are not counted, or a loop that only sleeps would never repeat a key)
	polled := 0
	for k := range g.fruitless {
		if !g.sleepKeys[k] {
			polled++
		}
	}
	key := h64("sleep", site, polled)
	if g.sleepKeys == nil {
		g.sleepKeys = map[uint64]bool{}
	}
	g.sleepKeys[key] = true
	g.markFruitless(key)
}

// Now replaces time.Now in instrumented files.
func Now() time.Time {
	x := X
	if x == nil {
		return time.Now()
	}
	return time.Unix(0, x.Clock)
}

// Since replaces time.Since.
func Since(t time.Time) time.Duration { return Now().Sub(t) }

// PointAt is a generic always-enabled scheduling point (cancel calls, KV calls ...).
func PointAt(tag string) {
	x, g := enter()
	if x == nil {
		return
	}
	x.park(g, op{kind: opPoint, site: tag})
	if x.race {
		x.pointSync(g, tag)
	}
	g.hash = h64(g.hash, "point", tag)
	g.fruitless = map[uint64]bool{}
	x.trace(g, "point "+tag)
	x.progress(g)
}

// Unsupported is emitted by the instrumenter for shapes it does not model.
func Unsupported(site string) {
	x := X
	if x == nil {
		return
	}
	x.unsupported(site)
}

func (x *Exec) unsupported(what string) {
	if x.Status == "" {
		x.Status = "unsupported"
		x.Detail = what
		x.finish()
	}
	panic(abortT{})
}

// NoBranch stops branching for the rest of the execution (default choices
// only): used by a harness once the concurrent phase is over and only the
// final observation remains.
func NoBranch() {
	if X != nil {
		X.cacheHit = true
	}
}

// Obs records an observation of the harness (compared across executions).
func Obs(s string) {
	if X != nil {
		X.Out = append(X.Out, s)
		return
	}
	freeMu.Lock()
	if freeSink != nil {
		*freeSink = append(*freeSink, s)
	}
	freeMu.Unlock()
}

var (
	freeMu   sync.Mutex
	freeSink *[]string
)

// RunFree executes a harness body with the scheduler off (every hook is a pass-through) and returns
// what it observed: the sequential/free-running reference for scenarios whose expected output is most
// safely defined by the implementation itself. A body that does not finish in time yields
// ["free-run-timeout"].
func RunFree(body func(), timeout time.Duration) []string {
	var out []string
	freeMu.Lock()
	freeSink = &out
	freeMu.Unlock()
	n0 := runtime.NumGoroutine()
	defer func() {
		// goroutines of the free run that are still winding down must be gone before a controlled
		// execution starts: they would take its hooks for their own
		for i := 0; i < 500 && runtime.NumGoroutine() > n0; i++ {
			time.Sleep(10 * time.Millisecond)
		}
	}()
	done := make(chan struct{})
	go func() { defer close(done); body() }()
	select {
	case <-done:
	case <-time.After(timeout):
		freeMu.Lock()
		freeSink = nil
		freeMu.Unlock()
		return []string{"free-run-timeout"}
	}
	freeMu.Lock()
	freeSink = nil
	freeMu.Unlock()
	return out
}

// ---------------------------------------------------------------- sync shims state

// MutexState is the scheduler's view of a mutex.
type MutexState struct {
	held bool
	ver  uint64
	id   uint64
	real sync.Mutex
	vc   vclock
}

func (m *MutexState) ensure(g *G) {
	if m.id == 0 {
		g.newN++
		m.id = h64("mutex", g.hash, g.newN)
	}
}

// Lock is the controlled lock.
func (m *MutexState) Lock() {
	x, g := enter()
	if x == nil {
		m.real.Lock()
		return
	}
	m.ensure(g)
	spinPos := g.lastUnlock == m
	x.park(g, op{kind: opLock, cid: m.id, mu: m, site: "lock"})
	m.held = true
	if x.race {
		x.acquire(g, m.vc)
	}
	if spinPos && g.lastVer[m] == m.ver {
		// re-locking right after our own unlock with nothing changed in between: a spin iteration
		g.markFruitless(h64("lock", m.id, m.ver))
		g.spinLock = true
		g.lockSpins++
	} else {
		g.hash = h64(g.hash, "lock", m.id, m.ver)
		g.spinLock = false
	}
}

// Unlock is the controlled unlock.
func (m *MutexState) Unlock() {
	x, g := enter()
	if x == nil {
		m.real.Unlock()
		return
	}
	m.held = false
	if x.race {
		x.release(g, &m.vc)
	}
	if g.spinLock {
		g.lastUnlock = m
		g.spinLock = false
		// a release is a scheduling point too: what the goroutine does next (reading a flag it
		// used to read under the lock, say) may interleave with the others' critical sections
		x.park(g, op{kind: opPoint, site: "unlocked"})
		return
	}
	m.ver = h64(m.ver, g.hash)
	g.lastVer[m] = m.ver
	g.hash = h64(g.hash, "unlock", m.id)
	g.fruitless = map[uint64]bool{}
	x.progress(g)
	g.lastUnlock = m
	x.park(g, op{kind: opPoint, site: "unlocked"})
}

// WGState is the scheduler's view of a WaitGroup.
type WGState struct {
	n    int
	id   uint64
	real sync.WaitGroup
	vc   vclock
}

func (w *WGState) Add(d int) {
	x, g := enter()
	if x == nil {
		w.real.Add(d)
		return
	}
	if w.id == 0 {
		g.newN++
		w.id = h64("wg", g.hash, g.newN)
	}
	w.n += d
	if x.race && d < 0 {
		x.release(g, &w.vc)
	}
	g.hash = h64(g.hash, "wgadd", w.id, d)
	if d < 0 {
		x.progress(g)
	}
}

func (w *WGState) Done() {
	if X == nil {
		w.real.Done()
		return
	}
	PointAt("wg.Done")
	w.Add(-1)
}

func (w *WGState) Wait() {
	x, g := enter()
	if x == nil {
		w.real.Wait()
		return
	}
	if w.id == 0 {
		g.newN++
		w.id = h64("wg", g.hash, g.newN)
	}
	x.park(g, op{kind: opWait, wg: w, cid: w.id, site: "wg.Wait"})
	if x.race {
		x.acquire(g, w.vc)
	}
	g.hash = h64(g.hash, "wgwait", w.id)
	g.fruitless = map[uint64]bool{}
	x.progress(g)
}

func (x *Exec) progress(g *G) {
	g.lockSpins = 0
	g.cycled = false
	g.lastFruitless = false
	g.lastUnlock = nil
	for _, o := range x.order {
		if o != g && !o.done {
			// whatever the others polled in vain may succeed now: they start a new pass
			o.cycled = false
			o.lockSpins = 0
			if len(o.fruitless) > 0 {
				o.fruitless = map[uint64]bool{}
			}
		}
	}
}

// ---------------------------------------------------------------- scheduler core

func (x *Exec) enabled(g *G) bool {
	if g.done {
		return false
	}
	switch g.pend.kind {
	case opStart, opPoll, opClose, opSleep, opPoint, opResume:
		return true
	case opSend:
		ci := x.chans[g.pend.ch]
		return ci.closed || g.pend.rv.Len() < g.pend.rv.Cap()
	case opRecv:
		ci := x.chans[g.pend.ch]
		return ci.closed || g.pend.rv.Len() > 0
	case opLock:
		return !g.pend.mu.held
	case opWait:
		return g.pend.wg.n <= 0
	}
	return false
}

func (x *Exec) isYielder(o *G) bool {
	if !o.cycled {
		return false
	}
	switch o.pend.kind {
	case opPoll, opSleep:
		return true
	case opLock:
		return o.lastUnlock == o.pend.mu && o.lastVer[o.pend.mu] == o.pend.mu.ver
	}
	return false
}

func (x *Exec) stateKey() uint64 {
	parts := make([]string, 0, len(x.order)+1)
	for _, g := range x.order {
		if g.done {
			parts = append(parts, g.id+":done")
			continue
		}
		fl := make([]uint64, 0, len(g.fruitless))
		for k := range g.fruitless {
			fl = append(fl, k)
		}
		sort.Slice(fl, func(i, j int) bool { return fl[i] < fl[j] })
		parts = append(parts, fmt.Sprintf("%s:%x:%v:%d:%x:%s:%v", g.id, g.hash, fl, g.pend.kind, g.pend.cid, g.pend.site, x.isYielder(g)))
	}
	if x.ClockChoice {
		parts = append(parts, fmt.Sprint("clk", x.Clock))
	}
	return h64(strings.Join(parts, "|"))
}

func (x *Exec) stop(g *G, exiting bool) {
	x.finish()
	if !exiting {
		<-g.wake
	}
}

// switchFrom is called by goroutine g when it parks (or exits); it picks the successor.
func (x *Exec) switchFrom(g *G, exiting bool) {
	x.Steps++
	if x.Status != "" {
		return
	}
	limit := x.StepLimit
	if limit == 0 {
		limit = 400000
	}
	if x.Steps > limit {
		x.Status = "steplimit"
		x.stop(g, exiting)
		return
	}
	var en, yielders []*G
	for _, o := range x.order {
		if x.enabled(o) {
			if x.isYielder(o) {
				yielders = append(yielders, o)
			} else {
				en = append(en, o)
			}
		}
	}
	if len(en) == 0 && len(yielders) > 0 {
		// a goroutine that merely takes the same mutex several times in a row (once per element of a batch,
		// say) looks like a spin-lock loop for its first iterations: only a goroutine that has re-locked 64
		// times running with nobody else able to move is one
		for _, o := range yielders {
			if o.pend.kind == opLock && o.lockSpins < 64 {
				en = append(en, o)
			}
		}
	}
	if len(en) == 0 && len(yielders) > 0 {
		// every goroutine that could still act has completed a full polling pass since the last
		// progress of anybody and found nothing: the execution spins forever
		x.Status = "spin"
		x.Detail = x.describe()
		x.stop(g, exiting)
		return
	}
	if len(en) == 0 {
		all := true
		for _, o := range x.order {
			if !o.done {
				all = false
			}
		}
		if all {
			x.Status = "done"
		} else {
			x.Status = "deadlock"
			x.Detail = x.describe()
		}
		x.stop(g, exiting)
		return
	}
	runIdx := -1
	for i, o := range en {
		if o == g && !exiting {
			runIdx = i
		}
	}
	if runIdx > 0 {
		r := en[runIdx]
		copy(en[1:runIdx+1], en[0:runIdx])
		en[0] = r
		runIdx = 0
	}
	i := len(x.Choices)
	c := 0
	pt := Point{RunIdx: runIdx, Yield: g.lastFruitless}
	for _, o := range en {
		pt.Enabled = append(pt.Enabled, o.id)
	}
	if i < len(x.prefix) {
		c = x.prefix[i]
		if c >= len(en) {
			x.Status = "replay-divergence"
			x.Detail = fmt.Sprintf("choice %d of point %d but only %d enabled", c, i, len(en))
			x.stop(g, exiting)
			return
		}
	} else if x.ex != nil && x.ex.UseCache && len(en) > 1 && !x.cacheHit {
		pt.Key = x.stateKey()
		rem := x.ex.remaining(x)
		if best, ok := x.ex.seen[pt.Key]; ok && best >= rem {
			x.cacheHit = true
		} else {
			x.ex.seen[pt.Key] = rem
		}
	}
	if x.cacheHit {
		pt.Pruned = true
	}
	x.Points = append(x.Points, pt)
	x.Choices = append(x.Choices, c)
	next := en[c]
	if next == g && !exiting {
		return
	}
	x.cur = next
	next.wake <- struct{}{}
	if !exiting {
		<-g.wake
	}
}

func (x *Exec) describe() string {
	var sb strings.Builder
	for _, g := range x.order {
		if !g.done {
			fmt.Fprintf(&sb, "[%s waits on %s at %s] ", g.id, kindNames[g.pend.kind], g.pend.site)
		}
	}
	return sb.String()
}

func (x *Exec) finish() {
	x.mu.Lock()
	defer x.mu.Unlock()
	if !x.finished {
		x.finished = true
		close(x.mainDone)
	}
}

// Options of one run.
type Options struct {
	CapMap    func(n int, site string) int
	KeepTrace bool
	StepLimit int
	Race      bool // happens-before race detection over the accesses hooked by instr -race
}

// Run executes body under the scheduler following prefix (then default choices).
func Run(ex *Explorer, prefix []int, body func(), o Options) *Exec {
	x := &Exec{chans: map[uintptr]*chanInfo{}, prefix: prefix, mainDone: make(chan struct{}), ex: ex, CapMap: o.CapMap, keepTrace: o.KeepTrace, StepLimit: o.StepLimit}
	X = x
	root := &G{id: "m", wake: make(chan struct{}), fruitless: map[uint64]bool{}, lastVer: map[*MutexState]uint64{}}
	if o.Race {
		x.race = true
		x.shadow = map[uintptr]*cell{}
		root.vc = vclock{1}
	}
	x.order = append(x.order, root)
	x.cur = root
	x.wg.Add(1)
	go func() {
		defer x.wg.Done()
		defer func() {
			if r := recover(); r != nil {
				if _, ok := r.(abortT); !ok {
					x.crash(r)
				}
			}
		}()
		body()
		root.done = true
		x.progress(root)
		x.switchFrom(root, true)
	}()
	select {
	case <-x.mainDone:
	case <-time.After(60 * time.Second):
		if x.Status == "" {
			x.Status = "lost-control"
			x.Detail = "no scheduling point reached for 60 s (a goroutine blocks in code the scheduler does not see): " + x.describe()
		}
	}
	// unwind leftovers
	for _, g := range x.order {
		if !g.done {
			g.abort = true
		}
	}
	for _, g := range x.order {
		if !g.done {
			select {
			case g.wake <- struct{}{}:
			default:
			}
		}
	}
	wd := make(chan struct{})
	go func() { x.wg.Wait(); close(wd) }()
	// After a "done" execution every controlled goroutine has returned from its body (that is what "done"
	// means: a goroutine that is still parked makes the execution a deadlock instead), so waiting for the
	// real goroutines to exit is only a matter of the Go scheduler's time, not a verdict: no short wall-clock
	// limit here. Aborted executions (deadlock, crash, step limit ...) are unwound with a short grace period.
	grace := 500 * time.Millisecond
	if x.Status == "done" {
		grace = 120 * time.Second
	}
	select {
	case <-wd:
	case <-time.After(grace):
		if x.Status == "done" {
			x.Status = "lost-control"
			x.Detail = "goroutines of a finished execution did not exit within 120 s"
		} else {
			x.Leaked = true
		}
	}
	X = nil
	x.shadow, x.pins = nil, nil
	return x
}

// Explorer is the stateless DFS with iterative preemption bounding and state cache.
type Explorer struct {
	UseCache bool
	Bound    int // -1 = unbounded
	MaxExecs int
	Deadline time.Time
	Opts     Options
	seen     map[uint64]int
	Execs    int
	Steps    int
	MaxDepth int
	Outcomes map[string]int
	Statuses map[string]int
	Capped   bool
	curCost  int
	// BoundDone is the largest preemption bound whose space was explored completely (-1: none;
	// for an unbounded exploration it is -1 unless the whole space was covered, then 1<<30)
	BoundDone int
	states    int
	// FreshExecs counts executions that were not re-runs of a lower bound's schedule
	FreshExecs int
}

func (e *Explorer) remaining(x *Exec) int {
	if e.Bound < 0 {
		return 1 << 30
	}
	return e.Bound - e.curCost
}

// States is the number of distinct cached states.
func (e *Explorer) States() int { return e.states + len(e.seen) }

// Explore enumerates executions of body; check is called on every finished execution.
func (e *Explorer) Explore(body func(), check func(x *Exec)) {
	e.seen = map[uint64]int{}
	e.Outcomes = map[string]int{}
	e.Statuses = map[string]int{}
	e.BoundDone = -1
	if e.Bound <= 0 {
		e.explore(nil, 0, body, check)
		if !e.Capped {
			e.BoundDone = e.Bound
			if e.Bound < 0 {
				e.BoundDone = 1 << 30
			}
		}
		return
	}
	// iterative context bounding: everything with 0 preemptions, then 1, ... so that the first
	// counterexample has the fewest preemptions and a capped run still completes the lower bounds
	final := e.Bound
	for b := 0; b <= final; b++ {
		e.Bound = b
		e.states += len(e.seen)
		e.seen = map[uint64]int{}
		e.explore(nil, 0, body, check)
		if e.Capped {
			break
		}
		e.BoundDone = b
	}
	e.Bound = final
}

func (e *Explorer) explore(prefix []int, used int, body func(), check func(x *Exec)) {
	if e.Capped {
		return
	}
	if (e.MaxExecs > 0 && e.Execs >= e.MaxExecs) || (!e.Deadline.IsZero() && time.Now().After(e.Deadline)) {
		e.Capped = true
		return
	}
	// the state cache is the only structure that grows with the search: cap it (about 0.5 GB per explorer,
	// several explorers run in parallel) and report the cap like any other
	if len(e.seen) > 6_000_000 {
		e.Capped = true
		return
	}
	e.curCost = used
	x := Run(e, prefix, body, e.Opts)
	x.Fresh = e.Bound <= 0 || used == e.Bound
	if x.Fresh {
		e.FreshExecs++
	}
	e.Execs++
	e.Steps += x.Steps
	if len(x.Points) > e.MaxDepth {
		e.MaxDepth = len(x.Points)
	}
	e.Statuses[x.Status]++
	o := append([]string{}, x.Out...)
	sort.Strings(o)
	e.Outcomes[x.Status+":"+strings.Join(o, ",")]++
	check(x)
	cost := used
	for i := len(prefix); i < len(x.Points); i++ {
		p := x.Points[i]
		if p.Pruned {
			break
		}
		for alt := 1; alt < len(p.Enabled); alt++ {
			c := cost
			if p.RunIdx == 0 && !p.Yield {
				c++ // switching away from a goroutine that could continue is a preemption
			}
			if e.Bound >= 0 && c > e.Bound {
				continue
			}
			np := append(append([]int{}, x.Choices[:i]...), alt)
			e.explore(np, c, body, check)
			if e.Capped {
				return
			}
		}
	}
}

// recvSync: a receive is ordered after the matching send (or after close when the channel is drained), and
// is itself ordered before the send that reuses its buffer slot.
func (x *Exec) recvSync(g *G, ci *chanInfo) {
	if !x.race {
		return
	}
	if ci.ext {
		x.acquire(g, x.ctxVC)
		return
	}
	if len(ci.msgVC) > 0 {
		x.acquire(g, ci.msgVC[0])
		ci.msgVC = ci.msgVC[1:]
	} else {
		x.acquire(g, ci.closeVC)
	}
	ci.recvVC = append(ci.recvVC, g.vc.clone())
	g.tick()
}
