package verifsched

// Happens-before race detection inside the explorer.
//
// tools/instr -race inserts, around the statements of the listed files, hooks that name the memory the
// statement reads and writes (struct fields, slice elements, map objects, package variables and locals
// shared with closures). Every controlled goroutine carries a vector clock that is advanced ONLY by the
// synchronisation the Go memory model defines and that the scheduler models: goroutine creation, channel
// send -> receive (and receive k -> send k+cap), close -> receive-of-closed, mutex unlock -> lock,
// WaitGroup Done -> Wait, Once, and - as whole-object locks, which only adds edges - the key-value store,
// file-system and sync.Map calls that are scheduling points. The scheduler's own hand-offs contribute
// nothing. Two accesses to the same word, at least one a write, neither ordered before the other, in any
// explored execution are a data race: reported with both source sites.
//
// Soundness on the "no alarm" side: an access is only recorded when it certainly happened at the
// recorded clock - the hooks bracket a statement and drop its accesses if the goroutine performed any
// synchronisation (so possibly parked) inside it; right operands of && and || are not recorded; the
// addresses are evaluated before the statement and the objects are pinned for the execution so that no
// address is ever reused by the allocator within one execution.

import (
	"fmt"
	"reflect"
	"sort"
	"strings"
)

type vclock []uint32

func (a vclock) clone() vclock { return append(vclock(nil), a...) }

func joinVC(a, b vclock) vclock {
	if len(b) > len(a) {
		a = append(a, make(vclock, len(b)-len(a))...)
	}
	for i, v := range b {
		if v > a[i] {
			a[i] = v
		}
	}
	return a
}

// SyncObj is a synchronisation object the shims use (sync.Map, Once ...): every operation on it is
// ordered with every other (acquire + release).
type SyncObj struct{ vc vclock }

func (g *G) tick() {
	g.vc[g.idx]++
	g.syncSeq++
}

func (x *Exec) release(g *G, o *vclock) {
	*o = joinVC(*o, g.vc)
	g.tick()
}

func (x *Exec) acquire(g *G, o vclock) {
	g.vc = joinVC(g.vc, o)
	g.syncSeq++
}

// SyncOp orders the caller after every earlier operation on o and before every later one.
func SyncOp(o *SyncObj) {
	x := X
	if x == nil || !x.race || x.Status != "" {
		return
	}
	g := x.cur
	x.acquire(g, o.vc)
	x.release(g, &o.vc)
}

type epoch struct {
	g    int
	c    uint32
	site string
}

type cell struct {
	w     epoch
	hasW  bool
	reads []epoch
}

// Acc collects the accesses of one statement.
type Acc struct {
	x     *Exec
	g     *G
	seq   uint64
	site  string
	items []accItem
}

type accItem struct {
	key   uintptr
	write bool
}

func (a *Acc) add(p interface{}, write bool) {
	rv := reflect.ValueOf(p)
	if rv.Kind() != reflect.Ptr || rv.IsNil() {
		return
	}
	size := rv.Type().Elem().Size()
	if size == 0 {
		return
	}
	if size > 64 {
		size = 64
	}
	a.x.pins = append(a.x.pins, p)
	addr := rv.Pointer()
	for w := addr &^ 7; w < addr+size; w += 8 {
		a.items = append(a.items, accItem{key: w, write: write})
	}
}

// R records a read of *p, W a write.
func (a *Acc) R(p interface{}) { a.add(p, false) }
func (a *Acc) W(p interface{}) { a.add(p, true) }

func (a *Acc) addMap(m interface{}, write bool) {
	rv := reflect.ValueOf(m)
	if rv.Kind() != reflect.Map || rv.IsNil() {
		return
	}
	a.x.pins = append(a.x.pins, m)
	a.items = append(a.items, accItem{key: rv.Pointer() | 1, write: write})
}

// RM records a read of the map object m (lookup, len, range), WM an update (assignment, delete).
func (a *Acc) RM(m interface{}) { a.addMap(m, false) }
func (a *Acc) WM(m interface{}) { a.addMap(m, true) }

func collect(site string, f func(a *Acc)) *Acc {
	x := X
	if x == nil || !x.race || x.Status != "" {
		return nil
	}
	g := x.cur
	if g == nil || g.vc == nil {
		return nil
	}
	a := &Acc{x: x, g: g, seq: g.syncSeq, site: site}
	func() {
		// an address that cannot be formed (nil base, index out of range) means the statement itself will
		// fail there: whatever was collected before it still stands
		defer func() { recover() }()
		f(a)
	}()
	return a
}

// Access records the accesses of a statement that contains no call (it cannot park in the middle).
func Access(site string, f func(a *Acc)) {
	if a := collect(site, f); a != nil {
		a.commit()
	}
}

// AccBegin / AccEnd bracket a statement that contains calls: its accesses count only if the goroutine
// performed no synchronisation in between (then the whole statement ran at one clock value).
func AccBegin(site string, f func(a *Acc)) *Acc { return collect(site, f) }

func AccEnd(a *Acc) {
	if a == nil || X != a.x || a.x.Status != "" || a.x.cur != a.g || a.g.syncSeq != a.seq {
		return
	}
	a.commit()
}

func (a *Acc) commit() {
	x, g := a.x, a.g
	cur := epoch{g: g.idx, c: g.vc[g.idx], site: a.site}
	ordered := func(e epoch) bool { return e.g == g.idx || (e.g < len(g.vc) && e.c <= g.vc[e.g]) }
	for _, it := range a.items {
		c := x.shadow[it.key]
		if c == nil {
			c = &cell{}
			x.shadow[it.key] = c
		}
		if c.hasW && !ordered(c.w) {
			kind := "write-read"
			if it.write {
				kind = "write-write"
			}
			x.reportRace(kind, c.w.site, a.site)
		}
		if it.write {
			for _, r := range c.reads {
				if !ordered(r) {
					x.reportRace("write-read", a.site, r.site)
				}
			}
			c.w, c.hasW = cur, true
			c.reads = c.reads[:0]
		} else {
			found := false
			for i := range c.reads {
				if c.reads[i].g == g.idx {
					c.reads[i] = cur
					found = true
				}
			}
			if !found {
				c.reads = append(c.reads, cur)
			}
		}
	}
}

func (x *Exec) reportRace(kind, writeSite, otherSite string) {
	if x.Races == nil {
		x.Races = map[string]bool{}
	}
	s := []string{writeSite, otherSite}
	if kind == "write-write" {
		sort.Strings(s)
	}
	x.Races[fmt.Sprintf("%s %s <-> %s", kind, s[0], s[1])] = true
}

// RaceList returns the races of the execution, sorted.
func (x *Exec) RaceList() []string {
	var out []string
	for k := range x.Races {
		out = append(out, k)
	}
	sort.Strings(out)
	return out
}

// pointSync gives the always-enabled scheduling points that stand for calls into synchronised objects
// their ordering: the key-value store and the file system behave as one lock each; cancelling a context
// is ordered before every later observation of a Done channel.
func (x *Exec) pointSync(g *G, tag string) {
	switch {
	case strings.HasPrefix(tag, "kv:"):
		x.acquire(g, x.kvVC)
		x.release(g, &x.kvVC)
	case strings.HasPrefix(tag, "io@"):
		x.acquire(g, x.ioVC)
		x.release(g, &x.ioVC)
	case strings.HasPrefix(tag, "cancel@"):
		x.release(g, &x.ctxVC)
	}
}
