#!/bin/bash
# builds the harness binaries from the current /repo working tree.
#   h  : the harness with the add-only export hooks (guard: build tag "verif"), added by build overlay
#   hs : the same harness with grip's concurrency-bearing files rewritten by tools/instr so that every
#        channel/mutex/goroutine operation goes through the controlled scheduler (engines/vsched)
# /repo itself is never modified; the overlays are regenerated from the current files on every build.
set -eu
cd "$(dirname "$0")"
export GOFLAGS=-mod=mod GOPROXY=off GOSUMDB=off GOTOOLCHAIN=local
export VERIF_ROOT="$(pwd)"
REPO="${VERIF_REPO:-/repo}"
WHAT="${1:-all}"
mkdir -p .work/bin .work/instr
# tools
if [ ! -x .work/bin/instr ] || [ tools/instr/main.go -nt .work/bin/instr ]; then
  (cd tools/instr && cp -n /repo/go.sum go.sum 2>/dev/null; go build -o ../../.work/bin/instr .)
fi
hooks_overlay() {
python3 - "$REPO" "$VERIF_ROOT" "$1" <<'PY'
import json,sys,os
repo,root,instr=sys.argv[1],sys.argv[2],sys.argv[3]
m={}
hooks=os.path.join(root,'engines','hooks')
for f in sorted(os.listdir(hooks)):
    if f.endswith('_export_verif.go'):
        pkg=f[:-len('_export_verif.go')]
        m[os.path.join(repo,pkg,'export_verif.go')]=os.path.join(hooks,f)
if instr:
    d=json.load(open(instr))
    m.update(d['overlay'])
    vs=os.path.join(root,'engines','vsched')
    for dirpath,_,files in os.walk(vs):
        for f in files:
            if f.endswith('.go'):
                rel=os.path.relpath(os.path.join(dirpath,f),vs)
                m[os.path.join(repo,'verifsched',rel)]=os.path.join(dirpath,f)
print(json.dumps({'Replace':m},indent=1))
PY
}
# a tree other than /repo (seeded/try.sh with SEED_COPY=1): same harness module, replace directive redirected
MODFILE=""
if [ "$REPO" != "/repo" ]; then
  sed "s#=> /repo#=> $REPO#" harness/go.mod > .work/alt.mod
  cp harness/go.sum .work/alt.sum 2>/dev/null || true
  MODFILE="-modfile=$VERIF_ROOT/.work/alt.mod"
fi
case "$WHAT" in C07|C11|C12|C13|C17) need_hs=1; need_h=0;; all) need_hs=1; need_h=1;; *) need_hs=0; need_h=1;; esac
if [ "$need_h" = 1 ]; then
  hooks_overlay "" > .work/overlay.json
  (cd harness && go build $MODFILE -tags verif -overlay ../.work/overlay.json -o ../.work/bin/h ./cmd/h)
fi
if [ "$need_hs" = 1 ]; then
  FILES=engine/logic/jump.go,engine/queue/queue.go,engine/pipeline/pipes.go,engine/core/processors.go,jobstorage/serializer.go,gripper/channel_mux.go,gdbi/processor.go,kvgraph/graph.go,kvgraph/index.go,kvindex/kvindex.go,server/api.go,kvgraph/new.go,kvgraph/graphdb.go,jobstorage/storage.go,server/metagraphs.go,server/job_manager.go,server/server.go,timestamp/timestamp.go
  # files whose memory accesses are hooked for the happens-before race detector (C17)
  RACE=server/api.go,server/metagraphs.go,server/job_manager.go,server/server.go,timestamp/timestamp.go,kvgraph/graph.go,kvgraph/index.go,kvgraph/new.go,kvgraph/graphdb.go,kvindex/kvindex.go,jobstorage/storage.go,engine/queue/queue.go,engine/logic/jump.go
  .work/bin/instr -repo "$REPO" -out "$VERIF_ROOT/.work/instr" -files "$FILES" \
     -mute engine/logic/jump.go,engine/queue/queue.go -clock gdbi/processor.go -io jobstorage/storage.go -race "$RACE" > .work/instr/out.json
  hooks_overlay .work/instr/out.json > .work/overlay_sched.json
  (cd harness && go build $MODFILE -tags "verif vsched" -overlay ../.work/overlay_sched.json -o ../.work/bin/hs ./cmd/h)
fi
