#!/bin/bash
# builds the harness binaries from the current /repo working tree, with the
# verification hooks (guard: build tag "verif") added by a build overlay, so
# /repo itself is never modified.
set -eu
cd "$(dirname "$0")"
export GOFLAGS=-mod=mod GOPROXY=off GOSUMDB=off GOTOOLCHAIN=local
export VERIF_ROOT="$(pwd)"
REPO="${VERIF_REPO:-/repo}"
mkdir -p .work/bin
# overlay: add-only export files
python3 - "$REPO" "$VERIF_ROOT" > .work/overlay.json <<'PY'
import json,sys,os
repo,root=sys.argv[1],sys.argv[2]
m={}
hooks=os.path.join(root,'engines','hooks')
for f in sorted(os.listdir(hooks)):
    if f.endswith('_export_verif.go'):
        pkg=f[:-len('_export_verif.go')]
        m[os.path.join(repo,pkg,'export_verif.go')]=os.path.join(hooks,f)
print(json.dumps({'Replace':m},indent=1))
PY
cd harness
go build -tags verif -overlay ../.work/overlay.json -o ../.work/bin/h ./cmd/h
