#!/bin/bash
# builds the harness binaries from the current /repo working tree
set -eu
cd "$(dirname "$0")"
export GOFLAGS=-mod=mod GOPROXY=off GOSUMDB=off GOTOOLCHAIN=local
export VERIF_ROOT="$(pwd)"
REPO="${VERIF_REPO:-/repo}"
mkdir -p .work/bin
cd harness
if [ "${1:-}" = "x" ] || [ "$REPO" != "/repo" ]; then
  # point the replace directive at another tree (used only by mutants/try.sh)
  sed "s#=> /repo#=> $REPO#" go.mod > go.alt.mod; cp go.sum go.alt.sum
  go build -modfile=go.alt.mod -o ../.work/bin/h ./cmd/h
else
  go build -o ../.work/bin/h ./cmd/h
fi
