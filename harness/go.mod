module verif/harness

go 1.18

require (
	github.com/Shopify/sarama v1.22.1
	github.com/Workiva/go-datastructures v1.0.52
	github.com/akrylysov/pogreb v0.8.1
	github.com/akuity/grpc-gateway-client v0.0.0-20230321170839-38ca1b4b439c
	github.com/antlr/antlr4/runtime/Go/antlr v1.4.10
	github.com/bmeg/jsonpath v0.0.0-20210207014051-cca5355553ad
	github.com/boltdb/bolt v1.3.1
	github.com/casbin/casbin/v2 v2.40.6
	github.com/cockroachdb/pebble v0.0.0-20230701135918-609ae80aea41
	github.com/davecgh/go-spew v1.1.1
	github.com/dgraph-io/badger/v2 v2.0.1
	github.com/dop251/goja v0.0.0-20190429205339-8d6ee3d16611
	github.com/felixge/httpsnoop v1.0.1
	github.com/go-sql-driver/mysql v1.5.0
	github.com/golang/protobuf v1.5.2
	github.com/graphql-go/graphql v0.8.0
	github.com/graphql-go/handler v0.2.3
	github.com/grpc-ecosystem/go-grpc-middleware v1.0.0
	github.com/grpc-ecosystem/grpc-gateway/v2 v2.15.2
	github.com/hashicorp/go-multierror v1.0.0
	github.com/hashicorp/go-plugin v1.4.2
	github.com/imdario/mergo v0.3.7
	github.com/influxdata/tdigest v0.0.1
	github.com/jmoiron/sqlx v1.2.0
	github.com/kennygrant/sanitize v1.2.4
	github.com/knakk/rdf v0.0.0-20190304171630-8521bf4c5042
	github.com/kr/pretty v0.2.1
	github.com/lib/pq v1.2.0
	github.com/logrusorgru/aurora v0.0.0-20190428105938-cea283e61946
	github.com/machinebox/graphql v0.2.2
	github.com/minio/minio-go/v7 v7.0.50
	github.com/mitchellh/hashstructure/v2 v2.0.1
	github.com/mongodb/mongo-tools v0.0.0-20210401103731-387f92fbcf79
	github.com/paulbellamy/ratecounter v0.2.0
	github.com/robertkrimen/otto v0.0.0-20180617131154-15f95af6e78d
	github.com/segmentio/ksuid v1.0.2
	github.com/sirupsen/logrus v1.9.0
	github.com/spf13/cast v1.3.0
	github.com/spf13/cobra v1.0.1-0.20201006035406-b97b5ead31f7
	github.com/stretchr/testify v1.8.2
	github.com/syndtr/goleveldb v1.0.0
	go.mongodb.org/mongo-driver v1.12.0
	golang.org/x/crypto v0.6.0
	golang.org/x/net v0.7.0
	golang.org/x/sync v0.1.0
	google.golang.org/api v0.110.0
	google.golang.org/genproto v0.0.0-20230303212802-e74f57abe488
	google.golang.org/grpc v1.53.0
	google.golang.org/protobuf v1.28.2-0.20230222093303-bc1253ad3743
	gopkg.in/olivere/elastic.v5 v5.0.80
	sigs.k8s.io/yaml v1.3.0
)

require (
	cloud.google.com/go/compute v1.18.0 // indirect
	cloud.google.com/go/compute/metadata v0.2.3 // indirect
	github.com/DataDog/zstd v1.4.5 // indirect
	github.com/Knetic/govaluate v3.0.1-0.20171022003610-9aa49832a739+incompatible // indirect
	github.com/alevinval/sse v1.0.1 // indirect
	github.com/beorn7/perks v1.0.1 // indirect
	github.com/cespare/xxhash v1.1.0 // indirect
	github.com/cespare/xxhash/v2 v2.2.0 // indirect
	github.com/cockroachdb/errors v1.8.1 // indirect
	github.com/cockroachdb/logtags v0.0.0-20190617123548-eb05cc24525f // indirect
	github.com/cockroachdb/redact v1.0.8 // indirect
	github.com/cockroachdb/sentry-go v0.6.1-cockroachdb.2 // indirect
	github.com/cockroachdb/tokenbucket v0.0.0-20230613231145-182959a1fad6 // indirect
	github.com/dgraph-io/ristretto v0.0.0-20191025175511-c1f00be0418e // indirect
	github.com/dgryski/go-farm v0.0.0-20190423205320-6a90982ecee2 // indirect
	github.com/dlclark/regexp2 v1.1.6 // indirect
	github.com/dustin/go-humanize v1.0.1 // indirect
	github.com/eapache/go-resiliency v1.1.0 // indirect
	github.com/eapache/go-xerial-snappy v0.0.0-20180814174437-776d5712da21 // indirect
	github.com/eapache/queue v1.1.0 // indirect
	github.com/fatih/color v1.7.0 // indirect
	github.com/go-resty/resty/v2 v2.7.0 // indirect
	github.com/go-sourcemap/sourcemap v2.1.2+incompatible // indirect
	github.com/gogo/protobuf v1.3.2 // indirect
	github.com/golang/groupcache v0.0.0-20200121045136-8c9f03a8e57e // indirect
	github.com/golang/snappy v0.0.4 // indirect
	github.com/google/uuid v1.3.0 // indirect
	github.com/googleapis/enterprise-certificate-proxy v0.2.3 // indirect
	github.com/googleapis/gax-go/v2 v2.7.0 // indirect
	github.com/hashicorp/errwrap v1.0.0 // indirect
	github.com/hashicorp/go-hclog v0.14.1 // indirect
	github.com/hashicorp/yamux v0.0.0-20180604194846-3520598351bb // indirect
	github.com/inconshreveable/mousetrap v1.0.0 // indirect
	github.com/jessevdk/go-flags v1.4.0 // indirect
	github.com/jhump/protoreflect v1.8.1 // indirect
	github.com/json-iterator/go v1.1.12 // indirect
	github.com/klauspost/compress v1.16.0 // indirect
	github.com/klauspost/cpuid/v2 v2.2.4 // indirect
	github.com/kr/text v0.2.0 // indirect
	github.com/mailru/easyjson v0.0.0-20180730094502-03f2033d19d5 // indirect
	github.com/matryer/is v1.4.0 // indirect
	github.com/mattn/go-colorable v0.1.7 // indirect
	github.com/mattn/go-isatty v0.0.12 // indirect
	github.com/matttproud/golang_protobuf_extensions v1.0.2-0.20181231171920-c182affec369 // indirect
	github.com/minio/md5-simd v1.1.2 // indirect
	github.com/minio/sha256-simd v1.0.0 // indirect
	github.com/mitchellh/go-testing-interface v1.0.0 // indirect
	github.com/modern-go/concurrent v0.0.0-20180306012644-bacd9c7ef1dd // indirect
	github.com/modern-go/reflect2 v1.0.2 // indirect
	github.com/montanaflynn/stats v0.0.0-20171201202039-1bf9dbcd8cbe // indirect
	github.com/niemeyer/pretty v0.0.0-20200227124842-a10e7caefd8e // indirect
	github.com/oklog/run v1.0.0 // indirect
	github.com/pierrec/lz4 v0.0.0-20190327172049-315a67e90e41 // indirect
	github.com/pkg/errors v0.9.1 // indirect
	github.com/pmezard/go-difflib v1.0.0 // indirect
	github.com/prometheus/client_golang v1.12.0 // indirect
	github.com/prometheus/client_model v0.2.1-0.20210607210712-147c58e9608a // indirect
	github.com/prometheus/common v0.32.1 // indirect
	github.com/prometheus/procfs v0.7.3 // indirect
	github.com/rcrowley/go-metrics v0.0.0-20181016184325-3113b8401b8a // indirect
	github.com/rs/xid v1.4.0 // indirect
	github.com/spf13/pflag v1.0.5 // indirect
	github.com/xdg-go/pbkdf2 v1.0.0 // indirect
	github.com/xdg-go/scram v1.1.2 // indirect
	github.com/xdg-go/stringprep v1.0.4 // indirect
	github.com/youmark/pkcs8 v0.0.0-20201027041543-1326539a0a0a // indirect
	go.opencensus.io v0.24.0 // indirect
	golang.org/x/exp v0.0.0-20200513190911-00229845015e // indirect
	golang.org/x/oauth2 v0.5.0 // indirect
	golang.org/x/sys v0.5.0 // indirect
	golang.org/x/term v0.5.0 // indirect
	golang.org/x/text v0.7.0 // indirect
	golang.org/x/xerrors v0.0.0-20220907171357-04be3eba64a2 // indirect
	gonum.org/v1/gonum v0.8.2 // indirect
	google.golang.org/appengine v1.6.7 // indirect
	gopkg.in/check.v1 v1.0.0-20200227125254-8fa46927fb4f // indirect
	gopkg.in/ini.v1 v1.67.0 // indirect
	gopkg.in/sourcemap.v1 v1.0.5 // indirect
	gopkg.in/yaml.v2 v2.4.0 // indirect
	gopkg.in/yaml.v3 v3.0.1 // indirect
)

require github.com/bmeg/grip v0.0.0

replace github.com/bmeg/grip => /repo
