// Package sqlrec is a recording database/sql driver plus a small SQL lexer.
// It lets the real psql / existing-sql drivers run without a database: every
// statement text and its bound arguments are recorded.
package sqlrec

import (
	"database/sql"
	"database/sql/driver"
	"fmt"
	"io"
	"strings"
	"sync"
)

// Stmt is one recorded statement.
type Stmt struct {
	Kind string // exec | query | prepare
	Text string
	Args []string
}

var (
	mu  sync.Mutex
	log []Stmt
)

// Reset clears the record.
func Reset() {
	mu.Lock()
	log = nil
	mu.Unlock()
}

// Take returns and clears the record.
func Take() []Stmt {
	mu.Lock()
	defer mu.Unlock()
	o := log
	log = nil
	return o
}

func rec(kind, text string, args []driver.Value) {
	var a []string
	for _, v := range args {
		switch x := v.(type) {
		case []byte:
			a = append(a, string(x))
		default:
			a = append(a, fmt.Sprint(x))
		}
	}
	mu.Lock()
	log = append(log, Stmt{kind, text, a})
	mu.Unlock()
}

type drv struct{}
type conn struct{}
type stmt struct{ q string }
type tx struct{}
type rows struct {
	cols []string
	data [][]driver.Value
	i    int
}
type result struct{}

func (drv) Open(string) (driver.Conn, error) { return conn{}, nil }
func (conn) Prepare(q string) (driver.Stmt, error) {
	rec("prepare", q, nil)
	return stmt{q}, nil
}
func (conn) Close() error              { return nil }
func (conn) Begin() (driver.Tx, error) { return tx{}, nil }
func (tx) Commit() error               { return nil }
func (tx) Rollback() error             { return nil }
func (s stmt) Close() error            { return nil }
func (s stmt) NumInput() int           { return -1 }
func (s stmt) Exec(args []driver.Value) (driver.Result, error) {
	rec("exec", s.q, args)
	return result{}, nil
}
func (s stmt) Query(args []driver.Value) (driver.Rows, error) {
	rec("query", s.q, args)
	l := strings.ToLower(s.q)
	if strings.Contains(l, "from graphs where") || strings.Contains(l, "from graphs ") && strings.Contains(l, "*") {
		return &rows{cols: []string{"graph_name", "sanitized_graph_name", "vertex_table", "edge_table"},
			data: [][]driver.Value{{"g", "g", "g_vertices", "g_edges"}}}, nil
	}
	if strings.Contains(l, "graph_name from graphs") {
		return &rows{cols: []string{"graph_name"}, data: [][]driver.Value{{"g"}}}, nil
	}
	return &rows{cols: []string{"gid", "label", "from", "to", "data"}}, nil
}
func (result) LastInsertId() (int64, error) { return 0, nil }
func (result) RowsAffected() (int64, error) { return 0, nil }
func (r *rows) Columns() []string           { return r.cols }
func (r *rows) Close() error                { return nil }
func (r *rows) Next(dest []driver.Value) error {
	if r.i >= len(r.data) {
		return io.EOF
	}
	copy(dest, r.data[r.i])
	r.i++
	return nil
}

// Register registers the driver under the given names (idempotent per name).
var registered = map[string]bool{}

func Register(names ...string) {
	for _, n := range names {
		if !registered[n] {
			sql.Register(n, drv{})
			registered[n] = true
		}
	}
}

// ---------------------------------------------------------------- lexer

// Token of a SQL text.
type Token struct {
	Kind string // word qident string dollar number param op comment
	Text string // raw text
	Val  string // decoded value for string/qident
}

// Lex tokenises a statement the way PostgreSQL does with
// standard_conforming_strings=on ('' is the only escape in '...'; E'...' takes
// backslash escapes; $tag$...$tag$; -- and nested /* */ comments). With
// mysql=true a backslash escapes inside '...' and "..." is a string, # starts
// a comment and `...` is an identifier.
func Lex(s string, mysql bool) ([]Token, error) {
	var out []Token
	i := 0
	isWordStart := func(c byte) bool { return c == '_' || c >= 'a' && c <= 'z' || c >= 'A' && c <= 'Z' || c >= 0x80 }
	isWord := func(c byte) bool { return isWordStart(c) || c >= '0' && c <= '9' || c == '$' }
	for i < len(s) {
		c := s[i]
		switch {
		case c == ' ' || c == '\t' || c == '\n' || c == '\r' || c == '\f':
			i++
		case c == '-' && i+1 < len(s) && s[i+1] == '-':
			j := strings.IndexByte(s[i:], '\n')
			if j < 0 {
				j = len(s) - i
			}
			out = append(out, Token{Kind: "comment", Text: s[i : i+j]})
			i += j
		case mysql && c == '#':
			j := strings.IndexByte(s[i:], '\n')
			if j < 0 {
				j = len(s) - i
			}
			out = append(out, Token{Kind: "comment", Text: s[i : i+j]})
			i += j
		case c == '/' && i+1 < len(s) && s[i+1] == '*':
			depth, j := 1, i+2
			for j < len(s) && depth > 0 {
				if !mysql && s[j] == '/' && j+1 < len(s) && s[j+1] == '*' {
					depth++
					j += 2
				} else if s[j] == '*' && j+1 < len(s) && s[j+1] == '/' {
					depth--
					j += 2
				} else {
					j++
				}
			}
			if depth > 0 {
				return out, fmt.Errorf("unterminated comment")
			}
			out = append(out, Token{Kind: "comment", Text: s[i:j]})
			i = j
		case c == '\'' || (mysql && c == '"') || ((c == 'E' || c == 'e') && !mysql && i+1 < len(s) && s[i+1] == '\''):
			esc := mysql
			start := i
			if c == 'E' || c == 'e' {
				esc = true
				i++
			}
			q := s[i]
			i++
			var val strings.Builder
			closed := false
			for i < len(s) {
				if esc && s[i] == '\\' && i+1 < len(s) {
					val.WriteByte(s[i+1])
					i += 2
					continue
				}
				if s[i] == q {
					if i+1 < len(s) && s[i+1] == q {
						val.WriteByte(q)
						i += 2
						continue
					}
					i++
					closed = true
					break
				}
				val.WriteByte(s[i])
				i++
			}
			if !closed {
				return out, fmt.Errorf("unterminated string literal")
			}
			out = append(out, Token{Kind: "string", Text: s[start:i], Val: val.String()})
		case c == '"' || (mysql && c == '`'):
			q := c
			start := i
			i++
			var val strings.Builder
			closed := false
			for i < len(s) {
				if s[i] == q {
					if i+1 < len(s) && s[i+1] == q {
						val.WriteByte(q)
						i += 2
						continue
					}
					i++
					closed = true
					break
				}
				val.WriteByte(s[i])
				i++
			}
			if !closed {
				return out, fmt.Errorf("unterminated quoted identifier")
			}
			out = append(out, Token{Kind: "qident", Text: s[start:i], Val: val.String()})
		case c == '$' && !mysql:
			// parameter $1 or dollar quote $tag$
			j := i + 1
			for j < len(s) && s[j] >= '0' && s[j] <= '9' {
				j++
			}
			if j > i+1 {
				out = append(out, Token{Kind: "param", Text: s[i:j]})
				i = j
				continue
			}
			k := i + 1
			for k < len(s) && (isWordStart(s[k]) || s[k] >= '0' && s[k] <= '9') && s[k] != '$' {
				k++
			}
			if k < len(s) && s[k] == '$' {
				tag := s[i : k+1]
				end := strings.Index(s[k+1:], tag)
				if end < 0 {
					return out, fmt.Errorf("unterminated dollar quote")
				}
				out = append(out, Token{Kind: "dollar", Text: s[i : k+1+end+len(tag)], Val: s[k+1 : k+1+end]})
				i = k + 1 + end + len(tag)
				continue
			}
			out = append(out, Token{Kind: "op", Text: "$"})
			i++
		case c >= '0' && c <= '9':
			j := i
			for j < len(s) && (s[j] >= '0' && s[j] <= '9' || s[j] == '.' || s[j] == 'e' || s[j] == 'E') {
				j++
			}
			out = append(out, Token{Kind: "number", Text: s[i:j]})
			i = j
		case isWordStart(c):
			j := i
			for j < len(s) && isWord(s[j]) {
				j++
			}
			out = append(out, Token{Kind: "word", Text: strings.ToLower(s[i:j])})
			i = j
		case c == 0:
			return out, fmt.Errorf("NUL byte in statement text")
		default:
			out = append(out, Token{Kind: "op", Text: string(c)})
			i++
		}
	}
	return out, nil
}

// Shape renders the token structure with literal contents abstracted away.
func Shape(toks []Token) string {
	var p []string
	for _, t := range toks {
		switch t.Kind {
		case "string", "dollar":
			p = append(p, "<str>")
		case "number":
			p = append(p, "<num>")
		case "comment":
			p = append(p, "<comment>")
		case "qident":
			p = append(p, `"`+t.Val+`"`)
		default:
			p = append(p, t.Text)
		}
	}
	return strings.Join(p, " ")
}
