// Package vf is the shared reporting layer: evidence files, known findings and
// the VIOLATION / KNOWN-FINDING protocol.
package vf

import (
	"encoding/json"
	"fmt"
	"io"
	"os"
	"path/filepath"
	"regexp"
	"sort"
	"strconv"
	"strings"
	"sync"
	"time"
)

// Out is the protocol channel (the process's real stdout). The harness binary
// points os.Stdout at /dev/null because parts of grip print with fmt.Printf.
var Out io.Writer = os.Stdout

// Root is /verif (overridable for tests through VERIF_ROOT).
func Root() string {
	if r := os.Getenv("VERIF_ROOT"); r != "" {
		return r
	}
	return "/verif"
}

// OutRoot is where evidence/ and replays/ are written: /verif, except when a
// run against a deliberately broken tree asks for a scratch location (VERIF_OUT)
// so that the committed evidence keeps describing the unchanged tree.
func OutRoot() string {
	if r := os.Getenv("VERIF_OUT"); r != "" {
		return r
	}
	return Root()
}

// Repo is the tree under test.
func Repo() string {
	if r := os.Getenv("VERIF_REPO"); r != "" {
		return r
	}
	return "/repo"
}

// Finding is one line of known_findings.txt.
type Finding struct {
	Property string   `json:"property"`
	Status   string   `json:"status"` // known | fixed
	Sig      string   `json:"sig"`    // anchored regular expression over violation signatures
	What     string   `json:"what"`
	Commit   string   `json:"commit,omitempty"`
	Example  any      `json:"example,omitempty"`
	Taints   []string `json:"taints,omitempty"` // histmc: observation components this defect corrupts in descendant states
	re       *regexp.Regexp
}

// LoadFindings reads the committed known-findings file (never written at run time).
func LoadFindings(prop string, also ...string) []*Finding {
	if os.Getenv("VERIF_IGNORE_KNOWN") != "" {
		return nil // debugging aid: show every violation, listed or not (never set by a registered command)
	}
	data, err := os.ReadFile(filepath.Join(Root(), "known_findings.txt"))
	if err != nil {
		return nil
	}
	var out []*Finding
	for _, l := range strings.Split(string(data), "\n") {
		l = strings.TrimSpace(l)
		if !strings.HasPrefix(l, "{") {
			continue
		}
		f := &Finding{}
		if err := json.Unmarshal([]byte(l), f); err != nil {
			fmt.Fprintf(os.Stderr, "known_findings.txt: bad line %q: %v\n", l, err)
			os.Exit(2)
		}
		match := f.Property == prop
		for _, a := range also {
			if f.Property == a {
				match = true
			}
		}
		if !match || f.Status != "known" {
			continue
		}
		f.re = regexp.MustCompile("^(?:" + f.Sig + ")$")
		out = append(out, f)
	}
	return out
}

// Violation is one failing case.
type Violation struct {
	Sig    string `json:"sig"`    // canonical signature (root-cause class + minimal case)
	Detail string `json:"detail"` // human readable
	Replay any    `json:"replay"` // machine readable case
}

// Run collects the outcome of one check.
type Run struct {
	Prop     string
	Tier     string
	Level    string
	start    time.Time
	mu       sync.Mutex
	viol     map[string]*Violation
	violN    map[string]int
	Coverage map[string]any
	Assume   []string
	findings []*Finding
}

// NewRun starts a check run.
func NewRun(prop, tier, level string, alsoFindingsOf ...string) *Run {
	if tier != "quick" && tier != "thorough" {
		tier = "quick"
	}
	return &Run{Prop: prop, Tier: tier, Level: level, start: time.Now(),
		viol: map[string]*Violation{}, violN: map[string]int{}, Coverage: map[string]any{},
		findings: LoadFindings(prop, alsoFindingsOf...)}
}

// Report records a violation (deduplicated by signature; the first, i.e. the
// simplest in enumeration order, is kept as the example).
func (r *Run) Report(v Violation) {
	r.mu.Lock()
	defer r.mu.Unlock()
	r.violN[v.Sig]++
	if _, ok := r.viol[v.Sig]; !ok {
		vv := v
		r.viol[v.Sig] = &vv
	}
}

// Known tells whether a signature is listed as a known finding.
func (r *Run) Known(sig string) *Finding {
	for _, f := range r.findings {
		if f.re.MatchString(sig) {
			return f
		}
	}
	return nil
}

// NViolations is the number of distinct signatures recorded so far.
func (r *Run) NViolations() int {
	r.mu.Lock()
	defer r.mu.Unlock()
	return len(r.viol)
}

// Seed returns VERIF_SEED (recorded only; nothing is random).
func Seed() int {
	s, _ := strconv.Atoi(os.Getenv("VERIF_SEED"))
	return s
}

// ReplaySig, when set (./run <ID> --replay <file>), turns the run into a
// re-execution of the enumeration at the recorded tier that reports only the
// recorded signature: exit 1 with the VIOLATION line if it reproduces, exit 0
// otherwise. No evidence is written and no other replay file is touched.
var ReplaySig, ReplayFile string

// Finish writes the evidence file, prints the protocol lines and returns the exit code.
func (r *Run) Finish() int {
	r.mu.Lock()
	defer r.mu.Unlock()
	if ReplaySig != "" {
		if v, ok := r.viol[ReplaySig]; ok {
			fmt.Fprintf(Out, "VIOLATION property=%s replay=%s\n  REPRODUCED sig: %s\n  cases: %d\n  detail: %s\n", r.Prop, ReplayFile, v.Sig, r.violN[ReplaySig], firstLines(v.Detail, 40))
			return 1
		}
		fmt.Fprintf(Out, "NOT-REPRODUCED property=%s sig: %s (%d other signature(s) seen in this run)\n", r.Prop, ReplaySig, len(r.viol))
		return 0
	}
	sigs := make([]string, 0, len(r.viol))
	for s := range r.viol {
		sigs = append(sigs, s)
	}
	sort.Strings(sigs)
	knownHit := map[*Finding][]string{}
	var fresh []string
	for _, s := range sigs {
		if f := r.Known(s); f != nil {
			knownHit[f] = append(knownHit[f], s)
		} else {
			fresh = append(fresh, s)
		}
	}
	var knownLines []string
	for _, f := range r.findings {
		if hits, ok := knownHit[f]; ok {
			n := 0
			for _, h := range hits {
				n += r.violN[h]
			}
			knownLines = append(knownLines, fmt.Sprintf("KNOWN-FINDING: property=%s %s [sig=%s cases=%d]", r.Prop, f.What, f.Sig, n))
		}
	}
	for _, l := range knownLines {
		fmt.Fprintln(Out, l)
	}
	os.MkdirAll(filepath.Join(OutRoot(), "replays"), 0o755)
	if old, _ := filepath.Glob(filepath.Join(OutRoot(), "replays", r.Prop+"-*.json")); len(old) > 0 {
		for _, f := range old {
			os.Remove(f)
		}
	}
	for i, s := range fresh {
		v := r.viol[s]
		p := filepath.Join(OutRoot(), "replays", fmt.Sprintf("%s-%d.json", r.Prop, i))
		data, _ := json.MarshalIndent(map[string]any{"property": r.Prop, "sig": v.Sig, "detail": v.Detail, "replay": v.Replay, "cases": r.violN[s], "tier": r.Tier}, "", " ")
		os.WriteFile(p, data, 0o644)
		fmt.Fprintf(Out, "VIOLATION property=%s replay=%s\n", r.Prop, p)
		fmt.Fprintf(Out, "  sig: %s\n  detail: %s\n", v.Sig, firstLines(v.Detail, 12))
	}
	r.Coverage["known_findings_hit"] = knownLines
	r.Coverage["fresh_violation_sigs"] = fresh
	ev := map[string]any{
		"property_id": r.Prop,
		"tier":        r.Tier,
		"seed":        Seed(),
		"level":       r.Level,
		"coverage":    r.Coverage,
		"assumptions": r.Assume,
		"wall_s":      time.Since(r.start).Seconds(),
		"violations":  len(fresh),
	}
	os.MkdirAll(filepath.Join(OutRoot(), "evidence"), 0o755)
	data, _ := json.MarshalIndent(ev, "", " ")
	if err := os.WriteFile(filepath.Join(OutRoot(), "evidence", r.Prop+".json"), data, 0o644); err != nil {
		fmt.Fprintln(os.Stderr, "cannot write evidence:", err)
		return 2
	}
	fmt.Fprintf(Out, "%s %s: %d fresh violation(s), %d known finding(s) hit, wall %.1fs\n", r.Prop, r.Tier, len(fresh), len(knownLines), time.Since(r.start).Seconds())
	if len(fresh) > 0 {
		return 1
	}
	return 0
}

func firstLines(s string, n int) string {
	l := strings.Split(s, "\n")
	if len(l) > n {
		l = append(l[:n], "...")
	}
	return strings.Join(l, "\n          ")
}

// J renders a value as compact JSON (for signatures and details).
func J(v any) string {
	b, _ := json.Marshal(v)
	return string(b)
}
