// Package progenum holds the fixture graphs and the step alphabets of the
// bounded-exhaustive program sweeps (C01, C02, C06, C10).
package progenum

import (
	"github.com/bmeg/grip/gdbi"
	"github.com/bmeg/grip/gripql"
	"github.com/bmeg/grip/kvgraph"
	"github.com/bmeg/grip/kvi"

	"verif/harness/gmodel"
	"verif/harness/memkv"
	"verif/harness/refsem"
)

func v(id, label string, data map[string]any) gmodel.Elem {
	return gmodel.Elem{ID: id, Label: label, Data: data}
}
func e(id, from, to, label string, data map[string]any) gmodel.Elem {
	return gmodel.Elem{Edge: true, ID: id, From: from, To: to, Label: label, Data: data}
}

// Fixture is a named graph.
type Fixture struct {
	Name  string
	Elems []gmodel.Elem
}

// Graph builds the abstract graph.
func (f Fixture) Graph() *gmodel.Graph {
	g := &gmodel.Graph{V: map[string]gmodel.Elem{}, E: map[string]gmodel.Elem{}}
	for _, x := range f.Elems {
		g.Put(x)
	}
	return g
}

// Load stores the fixture as graph "g" of a fresh kvgraph over the given store.
func (f Fixture) Load(kv kvi.KVInterface) (gdbi.GraphDB, gdbi.GraphInterface) {
	db := kvgraph.NewKVGraph(kv)
	db.AddGraph("g")
	gi, _ := db.Graph("g")
	for _, x := range f.Elems {
		if x.Edge {
			gi.AddEdge([]*gdbi.Edge{x.ToGdbi()})
		} else {
			gi.AddVertex([]*gdbi.Vertex{x.ToGdbi()})
		}
	}
	return db, gi
}

// LoadMem loads into a fresh memkv.
func (f Fixture) LoadMem() (gdbi.GraphDB, gdbi.GraphInterface) { return f.Load(memkv.New()) }

// Fixtures F0..F5.
func Fixtures() []Fixture {
	return []Fixture{
		{Name: "F0-empty"},
		{Name: "F1-one-vertex", Elems: []gmodel.Elem{v("a", "P", map[string]any{"n": 1.0})}},
		{Name: "F2-loop-parallel-isolated", Elems: []gmodel.Elem{
			v("a", "P", map[string]any{"n": 1.0, "s": "x"}), v("b", "PQ", map[string]any{"n": 2.0}), v("c", "P", nil), v("d", "PQ", nil),
			e("e1", "a", "a", "x", nil), e("e2", "a", "b", "x", nil), e("e3", "a", "b", "y", nil), e("e4", "b", "c", "x", nil)}},
		{Name: "F3-dangling-endpoints", Elems: []gmodel.Elem{
			v("a", "P", nil), v("b", "PQ", nil),
			e("e1", "a", "zz", "x", nil), e("e2", "zz", "b", "y", nil), e("e3", "a", "b", "x", nil)}},
		{Name: "F4-nested-mixed-data", Elems: []gmodel.Elem{
			v("a", "P", map[string]any{"n": 1.0, "s": "x", "t": []any{1.0, 2.0}, "m": map[string]any{"k": "v"}}),
			v("b", "P", map[string]any{"n": "1", "s": "q", "t": []any{"a"}, "m": map[string]any{"k": 2.0}}),
			v("c", "PQ", map[string]any{"s": nil, "flag": true}),
			e("e1", "a", "b", "x", map[string]any{"w": 1.5}), e("e2", "b", "c", "y", nil)}},
		{Name: "F5-shared-edge-label-both-directions", Elems: []gmodel.Elem{
			v("a", "P", map[string]any{"n": 1.0}), v("b", "PQ", map[string]any{"n": 1.0}), v("c", "P", map[string]any{"n": 2.0}),
			e("e1", "a", "b", "x", nil), e("e2", "b", "a", "x", nil), e("e3", "b", "c", "x", nil), e("e4", "c", "b", "y", nil)}},
		// kvgraph honours the planner's "do not load" hint for edges only, so edges with properties (equal
		// and different values, a parallel pair, one edge without data, two edge labels) get a fixture of their own
		{Name: "F6-edge-properties", Elems: []gmodel.Elem{
			v("a", "P", map[string]any{"w": 1.0}), v("b", "PQ", map[string]any{"w": 2.0}), v("c", "P", nil),
			e("e1", "a", "b", "x", map[string]any{"w": 1.0}), e("e2", "a", "c", "x", map[string]any{"w": 2.0}), e("e3", "b", "c", "y", map[string]any{"w": 1.0}),
			e("e4", "c", "a", "x", nil), e("e5", "a", "b", "x", map[string]any{"w": 1.0})}},
	}
}

// EdgeAlphabet is a 14-instance alphabet centred on edge rows, marks on them and every kind of step that
// reads a property of the current or of a marked element; it is enumerated deeper than the full alphabet.
func EdgeAlphabet() []refsem.Step {
	return []refsem.Step{
		st("outE"), st("inE"), st("bothE"), st("out"), st("in"),
		st("hasLabel", "x"), has(gripql.Eq("w", 1.0)), st("hasKey", "w"),
		st("as", "m1"), st("select", "m1"),
		st("distinct", "$m1.w"), has(gripql.Eq("$m1.w", 1.0)), st("distinct", "w"),
		st("count"),
	}
}

// EdgePrograms enumerates the well-typed programs over EdgeAlphabet with the starts V(), E(), V(a) up to maxLen.
func EdgePrograms(maxLen int) [][]refsem.Step {
	var out [][]refsem.Step
	level := [][]refsem.Step{{st("V")}, {st("E")}, {st("V", "a")}}
	for l := 2; l <= maxLen; l++ {
		var next [][]refsem.Step
		for _, p := range level {
			for _, s := range EdgeAlphabet() {
				np := append(append([]refsem.Step{}, p...), s)
				if ty, _, _ := refsem.TypeOf(np); ty == refsem.WellTyped {
					next = append(next, np)
				}
			}
		}
		out = append(out, next...)
		level = next
	}
	return out
}

func st(op string, strs ...string) refsem.Step { return refsem.Step{Op: op, Strs: strs} }
func has(h *gripql.HasExpression) refsem.Step { return refsem.Step{Op: "has", Has: h} }

// Starts of the C01 alphabet.
func Starts() []refsem.Step {
	return []refsem.Step{st("V"), st("V", "a"), st("V", "a", "zz"), st("V", "b", "a", "a"), st("E"), st("E", "e1")}
}

// Alphabet is the C01 step alphabet without the starts. core=true gives the
// 20-instance core used for the deepest length.
func Alphabet(core bool) []refsem.Step {
	var a []refsem.Step
	labelSets := [][]string{nil, {"x"}, {"x", "y"}}
	for _, op := range []string{"out", "in", "both", "outE", "inE", "bothE"} {
		for i, l := range labelSets {
			if core && i == 2 {
				continue
			}
			a = append(a, st(op, l...))
		}
	}
	a = append(a, st("hasLabel", "P"), st("hasId", "a", "b"), st("hasKey", "n"))
	a = append(a, has(gripql.Eq("n", 1.0)), has(gripql.Eq("_label", "P")), has(gripql.Eq("$m1.n", 1.0)))
	a = append(a, st("as", "m1"), st("select", "m1"), st("fields"), st("path"), st("distinct"), st("count"),
		refsem.Step{Op: "limit", A: 1}, refsem.Step{Op: "range", A: 1, B: 2})
	if core {
		return a
	}
	a = append(a, st("hasLabel", "P", "PQ"), st("hasLabel", "ZZ"), st("hasId", "a"), st("hasId", "zz"), st("hasKey", "n", "s"), st("hasKey", "zz"))
	a = append(a,
		has(gripql.Gt("n", 1.0)), has(gripql.Within("s", "x", "q")), has(gripql.Contains("t", 1.0)), has(gripql.Eq("_gid", "a")),
		has(gripql.Eq("m.k", "v")), has(gripql.Not(gripql.Eq("n", 1.0))), has(gripql.And(gripql.Gt("n", 0.0), gripql.Lt("n", 2.0))))
	a = append(a, st("as", "m2"), st("select", "m1", "m2"), st("fields", "n"), st("fields", "-n"),
		refsem.Step{Op: "render", Tmpl: map[string]any{"a": "_gid", "b": "n"}}, refsem.Step{Op: "render", Tmpl: []any{"$m1._gid", "_label"}},
		st("unwind", "t"), st("distinct", "s"), st("distinct", "n"), st("distinct", "$m1._gid"), // n: the number 1 and the text "1" are different values
		refsem.Step{Op: "limit", A: 0}, refsem.Step{Op: "limit", A: 2}, refsem.Step{Op: "skip", A: 1},
		refsem.Step{Op: "range", A: 0, B: -1}, refsem.Step{Op: "range", A: 1, B: 1})
	return a
}

// Programs enumerates start x alphabet^(0..maxLen-1), shortest first.
func Programs(starts, alpha []refsem.Step, maxLen int) [][]refsem.Step {
	var out [][]refsem.Step
	level := [][]refsem.Step{}
	for _, s := range starts {
		level = append(level, []refsem.Step{s})
	}
	out = append(out, level...)
	for l := 2; l <= maxLen; l++ {
		var next [][]refsem.Step
		for _, p := range level {
			for _, s := range alpha {
				np := append(append([]refsem.Step{}, p...), s)
				next = append(next, np)
			}
		}
		out = append(out, next...)
		level = next
	}
	return out
}

// PathPrograms: V() / V(a) / E(), then every sequence of k moves (1 <= k <= maxMoves), optionally with a mark
// after the first move, then path(). Path bookkeeping is per traveler and grows with every move, so it needs
// depth rather than breadth: long move chains with a fan-out at the last step.
func PathPrograms(maxMoves int) [][]refsem.Step {
	moves := []refsem.Step{st("out"), st("in"), st("both"), st("outE"), st("inE")}
	var out [][]refsem.Step
	level := [][]refsem.Step{{st("V")}, {st("V", "a")}, {st("E")}}
	for k := 1; k <= maxMoves; k++ {
		var next [][]refsem.Step
		for _, p := range level {
			for _, m := range moves {
				np := append(append([]refsem.Step{}, p...), m)
				if ty, _, _ := refsem.TypeOf(np); ty == refsem.WellTyped {
					next = append(next, np)
				}
			}
		}
		for _, p := range next {
			out = append(out, append(append([]refsem.Step{}, p...), st("path")))
			if k >= 2 {
				withMark := append(append([]refsem.Step{}, p[:2]...), st("as", "m1"))
				withMark = append(append(withMark, p[2:]...), st("path"))
				out = append(out, withMark)
			}
		}
		level = next
	}
	return out
}

// MarkPrograms: programs over a 9-instance alphabet in which the two mark names are set, set AGAIN on a
// different row and read back (select of one or both, a filter and a distinct on a mark's field): what a
// mark holds after it has been re-assigned is invisible to programs that use every name once.
func MarkPrograms(maxLen int) [][]refsem.Step {
	alpha := []refsem.Step{
		st("out"), st("in"), st("outE"),
		st("as", "m1"), st("as", "m2"),
		st("select", "m1"), st("select", "m1", "m2"),
		has(gripql.Eq("$m1._gid", "a")), st("distinct", "$m1._gid"),
	}
	var out [][]refsem.Step
	level := [][]refsem.Step{{st("V")}, {st("V", "a")}}
	for l := 2; l <= maxLen; l++ {
		var next [][]refsem.Step
		for _, p := range level {
			for _, s := range alpha {
				np := append(append([]refsem.Step{}, p...), s)
				if ty, _, _ := refsem.TypeOf(np); ty == refsem.WellTyped {
					next = append(next, np)
				}
			}
		}
		for _, p := range next {
			marks := 0
			for _, s := range p {
				if s.Op == "as" {
					marks++
				}
			}
			if marks >= 2 { // only programs that mark at least twice are new with respect to the other sweeps
				out = append(out, p)
			}
		}
		level = next
	}
	return out
}
