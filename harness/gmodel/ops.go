package gmodel

import (
	"fmt"
	"sort"
	"strings"

	"github.com/bmeg/grip/gdbi"
)

// Op is one mutating API call at the gdbi level.
type Op struct {
	Kind  string // AddGraph DeleteGraph AddVertex AddEdge BulkAdd DelVertex DelEdge Reopen
	G     string
	Elems []Elem // AddVertex / AddEdge (batched when >1) / BulkAdd
	ID    string // DelVertex / DelEdge
}

func (o Op) String() string {
	switch o.Kind {
	case "AddGraph", "DeleteGraph":
		return fmt.Sprintf("%s(%s)", o.Kind, o.G)
	case "DelVertex", "DelEdge":
		return fmt.Sprintf("%s(%s,%s)", o.Kind, o.G, o.ID)
	case "Reopen":
		return "Reopen"
	}
	var s []string
	for _, e := range o.Elems {
		s = append(s, e.String())
	}
	return fmt.Sprintf("%s(%s,[%s])", o.Kind, o.G, strings.Join(s, " "))
}

// Outcome is what the reference model allows after an operation.
type Outcome struct {
	Worlds  []World // allowed post-states, preferred first
	MustErr bool    // the call must return an error
	MustOK  bool    // the call must succeed
	Class   string  // operation class relative to the pre-state (used in signatures)
	// Dev[i] != "" marks Worlds[i] as NOT allowed by the property: it is a named
	// deviation that the implementation is known or suspected to take. If the
	// observation matches it, the deviation is reported and the search goes on
	// from that world, so that states behind the deviation are still explored.
	Dev []string
}

func elemClass(g *Graph, e Elem) string {
	if !e.Valid() {
		switch {
		case e.ID == "":
			return "invalid-blank-gid"
		case e.Label == "":
			return "invalid-blank-label"
		case e.Edge && (e.From == "" || e.To == ""):
			return "invalid-blank-endpoint"
		}
		return "invalid-property-name"
	}
	var old Elem
	var ok bool
	if e.Edge {
		old, ok = g.E[e.ID]
	} else {
		old, ok = g.V[e.ID]
	}
	if !ok {
		return "new"
	}
	switch {
	case e.Edge && (old.From != e.From || old.To != e.To):
		return "re-endpoint"
	case old.Label != e.Label:
		return "relabel"
	case old.Canon() != e.Canon():
		return "redata"
	}
	return "same"
}

// Apply evaluates op on the model.
func (w World) Apply(op Op) Outcome {
	switch op.Kind {
	case "AddGraph":
		if !ValidName(op.G) {
			return Outcome{Worlds: []World{w}, MustErr: true, Class: "AddGraph:invalid-name"}
		}
		if _, ok := w[op.G]; ok {
			return Outcome{Worlds: []World{w}, Class: "AddGraph:existing"}
		}
		n := w.Clone()
		n[op.G] = &Graph{V: map[string]Elem{}, E: map[string]Elem{}}
		return Outcome{Worlds: []World{n}, MustOK: true, Class: "AddGraph:new"}
	case "DeleteGraph":
		if _, ok := w[op.G]; !ok {
			return Outcome{Worlds: []World{w}, Class: "DeleteGraph:absent"}
		}
		n := w.Clone()
		delete(n, op.G)
		return Outcome{Worlds: []World{n}, MustOK: true, Class: "DeleteGraph:present"}
	case "Reopen":
		return Outcome{Worlds: []World{w}, MustOK: true, Class: "Reopen"}
	}
	g, ok := w[op.G]
	if !ok {
		return Outcome{Worlds: []World{w}, MustErr: true, Class: op.Kind + ":missing-graph"}
	}
	switch op.Kind {
	case "DelVertex":
		n := w.Clone()
		if n[op.G].DelVertex(op.ID) {
			cls := "DelVertex:present"
			if len(n[op.G].E) != len(g.E) {
				cls = "DelVertex:present-with-edges"
			}
			return Outcome{Worlds: []World{n}, MustOK: true, Class: cls}
		}
		// deviation: the dangling edges naming the absent id are removed anyway
		dv := w.Clone()
		for k, e := range dv[op.G].E {
			if e.From == op.ID || e.To == op.ID {
				delete(dv[op.G].E, k)
			}
		}
		if len(dv[op.G].E) != len(g.E) {
			return Outcome{Worlds: []World{w, dv}, Dev: []string{"", "dangling-edges-removed"}, Class: "DelVertex:absent"}
		}
		return Outcome{Worlds: []World{w}, Class: "DelVertex:absent"}
	case "DelEdge":
		n := w.Clone()
		if n[op.G].DelEdge(op.ID) {
			return Outcome{Worlds: []World{n}, MustOK: true, Class: "DelEdge:present"}
		}
		return Outcome{Worlds: []World{w}, Class: "DelEdge:absent"}
	case "AddVertex", "AddEdge", "BulkAdd":
		var cls []string
		allValid := true
		n := w.Clone()
		for _, e := range op.Elems {
			cls = append(cls, elemClass(n[op.G], e))
			if e.Valid() {
				n[op.G].Put(e)
			} else {
				allValid = false
			}
		}
		// the class of a batch is the sorted set of its element classes
		set := map[string]bool{}
		for _, c := range cls {
			set[c] = true
		}
		cls = cls[:0]
		for c := range set {
			cls = append(cls, c)
		}
		sort.Strings(cls)
		class := op.Kind + ":" + strings.Join(cls, "+")
		if allValid {
			return Outcome{Worlds: []World{n}, MustOK: true, Class: class}
		}
		// a call with an invalid element fails; it may have applied nothing or exactly its valid elements
		return Outcome{Worlds: []World{w, n}, MustErr: true, Class: class}
	}
	panic("unknown op " + op.Kind)
}

// ApplyDB performs op on a real driver.
func ApplyDB(db gdbi.GraphDB, op Op) (err error, panicked string) {
	defer func() {
		if r := recover(); r != nil {
			panicked = fmt.Sprint(r)
		}
	}()
	switch op.Kind {
	case "AddGraph":
		return db.AddGraph(op.G), ""
	case "DeleteGraph":
		return db.DeleteGraph(op.G), ""
	}
	gi, err := db.Graph(op.G)
	if err != nil {
		return err, ""
	}
	switch op.Kind {
	case "AddVertex":
		var l []*gdbi.Vertex
		for _, e := range op.Elems {
			l = append(l, e.ToGdbi())
		}
		return gi.AddVertex(l), ""
	case "AddEdge":
		var l []*gdbi.Edge
		for _, e := range op.Elems {
			l = append(l, e.ToGdbi())
		}
		return gi.AddEdge(l), ""
	case "BulkAdd":
		c := make(chan *gdbi.GraphElement, len(op.Elems))
		for _, e := range op.Elems {
			if e.Edge {
				c <- &gdbi.GraphElement{Edge: e.ToGdbi(), Graph: op.G}
			} else {
				c <- &gdbi.GraphElement{Vertex: e.ToGdbi(), Graph: op.G}
			}
		}
		close(c)
		return gi.BulkAdd(c), ""
	case "DelVertex":
		return gi.DelVertex(op.ID), ""
	case "DelEdge":
		return gi.DelEdge(op.ID), ""
	}
	panic("unknown op " + op.Kind)
}

// Timestamps reads the timestamp of every graph of the universe that can be opened.
func Timestamps(db gdbi.GraphDB, graphs []string) map[string]string {
	o := map[string]string{}
	for _, g := range graphs {
		gi, err := db.Graph(g)
		if err != nil {
			continue
		}
		o[g] = gi.GetTimestamp()
	}
	return o
}
