// Package gmodel is the boring reference model of a GRIP property graph store
// (maps, last write wins, cascading vertex delete, isolated graphs) together
// with the observation battery that is evaluated identically on the model and
// on a real gdbi.GraphDB.
package gmodel

import (
	"context"
	"encoding/json"
	"fmt"
	"sort"
	"strconv"
	"strings"

	"github.com/bmeg/grip/gdbi"
)

// Elem is a vertex or an edge.
type Elem struct {
	Edge     bool
	ID       string
	Label    string
	From, To string
	Data     map[string]any
}

func (e Elem) String() string {
	d := "{}"
	if len(e.Data) > 0 {
		b, _ := json.Marshal(e.Data)
		d = string(b)
	}
	if e.Edge {
		return fmt.Sprintf("E(%s:%s->%s:%s:%s)", q(e.ID), q(e.From), q(e.To), q(e.Label), d)
	}
	return fmt.Sprintf("V(%s:%s:%s)", q(e.ID), q(e.Label), d)
}

// q leaves plain tokens alone and quotes everything else, so that the
// canonical rendering stays unambiguous for hostile identifiers (C16).
func q(s string) string {
	for i := 0; i < len(s); i++ {
		c := s[i]
		if !(c >= 'a' && c <= 'z' || c >= 'A' && c <= 'Z' || c >= '0' && c <= '9' || c == '_') {
			return strconv.Quote(s)
		}
	}
	return s
}

// Canon is the canonical observation string of an element.
func (e Elem) Canon() string { return e.String() }

// ToGdbi converts to the driver level element.
func (e Elem) ToGdbi() *gdbi.DataElement {
	var d map[string]any
	if e.Data != nil {
		d = map[string]any{}
		for k, v := range e.Data {
			d[k] = v
		}
	}
	return &gdbi.DataElement{ID: e.ID, Label: e.Label, From: e.From, To: e.To, Data: d, Loaded: true}
}

var badChars = "!@#$%^&*()+={}[] :;\"',.<>?/\\|~"
var reserved = []string{"_gid", "_label", "_to", "_from", "_data"}

// ValidName mirrors the documented naming rule for graph and property names.
func ValidName(k string) bool {
	if strings.ContainsAny(k, badChars) {
		return false
	}
	if strings.HasPrefix(k, "_") || strings.HasPrefix(k, "-") {
		return false
	}
	return true
}

// Valid tells whether the element must be accepted.
func (e Elem) Valid() bool {
	if e.ID == "" || e.Label == "" {
		return false
	}
	if e.Edge && (e.From == "" || e.To == "") {
		return false
	}
	for k := range e.Data {
		for _, r := range reserved {
			if k == r {
				return false
			}
		}
		if !ValidName(k) {
			return false
		}
	}
	return true
}

// Graph is one abstract graph.
type Graph struct {
	V map[string]Elem
	E map[string]Elem
}

// World is the set of graphs.
type World map[string]*Graph

// Clone deep-copies the world (element data maps are immutable by convention).
func (w World) Clone() World {
	o := World{}
	for n, g := range w {
		ng := &Graph{V: map[string]Elem{}, E: map[string]Elem{}}
		for k, v := range g.V {
			ng.V[k] = v
		}
		for k, v := range g.E {
			ng.E[k] = v
		}
		o[n] = ng
	}
	return o
}

// Key is a canonical rendering of the whole world.
func (w World) Key() string {
	var names []string
	for n := range w {
		names = append(names, n)
	}
	sort.Strings(names)
	var b strings.Builder
	for _, n := range names {
		b.WriteString(n + "{")
		b.WriteString(strings.Join(w[n].sortedV(), ","))
		b.WriteString(";")
		b.WriteString(strings.Join(w[n].sortedE(), ","))
		b.WriteString("}")
	}
	return b.String()
}

// GraphKey is the canonical rendering of one graph ("" if absent).
func (w World) GraphKey(g string) string {
	gr, ok := w[g]
	if !ok {
		return "<absent>"
	}
	return strings.Join(gr.sortedV(), ",") + ";" + strings.Join(gr.sortedE(), ",")
}

func (g *Graph) sortedV() []string {
	var o []string
	for _, v := range g.V {
		o = append(o, v.Canon())
	}
	sort.Strings(o)
	return o
}
func (g *Graph) sortedE() []string {
	var o []string
	for _, v := range g.E {
		o = append(o, v.Canon())
	}
	sort.Strings(o)
	return o
}

// Put stores an element (last write wins).
func (g *Graph) Put(e Elem) {
	if e.Edge {
		g.E[e.ID] = e
	} else {
		g.V[e.ID] = e
	}
}

// DelVertex removes a vertex and its incident edges.
func (g *Graph) DelVertex(id string) bool {
	if _, ok := g.V[id]; !ok {
		return false
	}
	delete(g.V, id)
	for k, e := range g.E {
		if e.From == id || e.To == id {
			delete(g.E, k)
		}
	}
	return true
}

// DelEdge removes an edge.
func (g *Graph) DelEdge(id string) bool {
	if _, ok := g.E[id]; !ok {
		return false
	}
	delete(g.E, id)
	return true
}

// Universe fixes which ids, labels and filters the battery asks about.
type Universe struct {
	Graphs  []string
	VIDs    []string // includes at least one absent id
	EIDs    []string
	VLabels []string
	Filters [][]string // edge label filters
}

// Obs is the battery result: component -> item -> canonical value.
type Obs map[string]map[string]string

func (o Obs) set(comp, item, val string) {
	m, ok := o[comp]
	if !ok {
		m = map[string]string{}
		o[comp] = m
	}
	m[item] = val
}

// Components lists the components in a fixed order.
var Components = []string{"graphs", "lookup-v", "lookup-e", "list-v", "list-e", "out", "in", "outE", "inE", "label-scan", "vlabels", "elabels"}

func has(l []string, s string) bool {
	if len(l) == 0 {
		return true
	}
	for _, x := range l {
		if x == s {
			return true
		}
	}
	return false
}

func joinSorted(s []string) string {
	o := make([]string, len(s))
	for i, x := range s {
		o[i] = x
		if x == "" || strings.ContainsAny(x, " []") && !strings.HasPrefix(x, "V(") && !strings.HasPrefix(x, "E(") {
			o[i] = strconv.Quote(x)
		}
	}
	sort.Strings(o)
	return "[" + strings.Join(o, " ") + "]"
}

// Observe computes the battery on the model.
func (w World) Observe(u Universe) Obs {
	o := Obs{}
	var names []string
	for n := range w {
		names = append(names, n)
	}
	o.set("graphs", "list", joinSorted(names))
	for _, gn := range u.Graphs {
		g, ok := w[gn]
		if !ok {
			o.set("graphs", "open:"+gn, "error")
			continue
		}
		o.set("graphs", "open:"+gn, "ok")
		for _, id := range u.VIDs {
			if v, ok := g.V[id]; ok {
				o.set("lookup-v", gn+":"+id, v.Canon())
			} else {
				o.set("lookup-v", gn+":"+id, "nil")
			}
		}
		for _, id := range u.EIDs {
			if e, ok := g.E[id]; ok {
				o.set("lookup-e", gn+":"+id, e.Canon())
			} else {
				o.set("lookup-e", gn+":"+id, "nil")
			}
		}
		o.set("list-v", gn, joinSorted(g.sortedV()))
		o.set("list-e", gn, joinSorted(g.sortedE()))
		for _, id := range u.VIDs {
			for _, f := range u.Filters {
				var out, in, outE, inE []string
				for _, e := range g.E {
					if !has(f, e.Label) {
						continue
					}
					if e.From == id {
						outE = append(outE, e.Canon())
						if v, ok := g.V[e.To]; ok {
							out = append(out, v.Canon())
						}
					}
					if e.To == id {
						inE = append(inE, e.Canon())
						if v, ok := g.V[e.From]; ok {
							in = append(in, v.Canon())
						}
					}
				}
				item := fmt.Sprintf("%s:%s:%v", gn, id, f)
				o.set("out", item, joinSorted(out))
				o.set("in", item, joinSorted(in))
				o.set("outE", item, joinSorted(outE))
				o.set("inE", item, joinSorted(inE))
			}
		}
		vl := map[string]bool{}
		el := map[string]bool{}
		for _, l := range u.VLabels {
			var ids []string
			for _, v := range g.V {
				if v.Label == l {
					ids = append(ids, v.ID)
				}
			}
			o.set("label-scan", gn+":"+l, joinSorted(ids))
		}
		for _, v := range g.V {
			vl[v.Label] = true
		}
		for _, e := range g.E {
			el[e.Label] = true
		}
		o.set("vlabels", gn, joinSorted(keys(vl)))
		o.set("elabels", gn, joinSorted(keys(el)))
	}
	return o
}

func keys(m map[string]bool) []string {
	var o []string
	for k := range m {
		o = append(o, k)
	}
	return o
}

func fromGdbi(e *gdbi.DataElement, edge bool) Elem {
	d := e.Data
	if len(d) == 0 {
		d = nil
	}
	return Elem{Edge: edge, ID: e.ID, Label: e.Label, From: e.From, To: e.To, Data: d}
}

// ObserveDB computes the same battery on a real driver. A panic inside the
// driver is reported in the returned string.
func ObserveDB(db gdbi.GraphDB, u Universe) (o Obs, panicked string) {
	o = Obs{}
	defer func() {
		if r := recover(); r != nil {
			panicked = fmt.Sprint(r)
		}
	}()
	ctx := context.Background()
	o.set("graphs", "list", joinSorted(append([]string{}, db.ListGraphs()...)))
	for _, gn := range u.Graphs {
		gi, err := db.Graph(gn)
		if err != nil {
			o.set("graphs", "open:"+gn, "error")
			continue
		}
		o.set("graphs", "open:"+gn, "ok")
		for _, id := range u.VIDs {
			if v := gi.GetVertex(id, true); v != nil {
				o.set("lookup-v", gn+":"+id, fromGdbi(v, false).Canon())
			} else {
				o.set("lookup-v", gn+":"+id, "nil")
			}
		}
		for _, id := range u.EIDs {
			if e := gi.GetEdge(id, true); e != nil {
				o.set("lookup-e", gn+":"+id, fromGdbi(e, true).Canon())
			} else {
				o.set("lookup-e", gn+":"+id, "nil")
			}
		}
		var vs, es []string
		for v := range gi.GetVertexList(ctx, true) {
			vs = append(vs, fromGdbi(v, false).Canon())
		}
		for e := range gi.GetEdgeList(ctx, true) {
			es = append(es, fromGdbi(e, true).Canon())
		}
		o.set("list-v", gn, joinSorted(vs))
		o.set("list-e", gn, joinSorted(es))
		for _, id := range u.VIDs {
			for _, f := range u.Filters {
				item := fmt.Sprintf("%s:%s:%v", gn, id, f)
				mk := func() chan gdbi.ElementLookup {
					c := make(chan gdbi.ElementLookup, 1)
					c <- gdbi.ElementLookup{ID: id}
					close(c)
					return c
				}
				var out, in, outE, inE []string
				for r := range gi.GetOutChannel(ctx, mk(), true, false, f) {
					out = append(out, canonV(r.Vertex))
				}
				for r := range gi.GetInChannel(ctx, mk(), true, false, f) {
					in = append(in, canonV(r.Vertex))
				}
				for r := range gi.GetOutEdgeChannel(ctx, mk(), true, false, f) {
					outE = append(outE, canonE(r.Edge))
				}
				for r := range gi.GetInEdgeChannel(ctx, mk(), true, false, f) {
					inE = append(inE, canonE(r.Edge))
				}
				o.set("out", item, joinSorted(out))
				o.set("in", item, joinSorted(in))
				o.set("outE", item, joinSorted(outE))
				o.set("inE", item, joinSorted(inE))
			}
		}
		for _, l := range u.VLabels {
			var ids []string
			for id := range gi.VertexLabelScan(ctx, l) {
				ids = append(ids, id)
			}
			o.set("label-scan", gn+":"+l, joinSorted(ids))
		}
		vl, _ := gi.ListVertexLabels()
		el, _ := gi.ListEdgeLabels()
		o.set("vlabels", gn, joinSorted(append([]string{}, vl...)))
		o.set("elabels", gn, joinSorted(append([]string{}, el...)))
	}
	return
}

func canonV(v *gdbi.DataElement) string {
	if v == nil {
		return "<nil>"
	}
	return fromGdbi(v, false).Canon()
}
func canonE(v *gdbi.DataElement) string {
	if v == nil {
		return "<nil>"
	}
	return fromGdbi(v, true).Canon()
}

// Diff lists the (component,item) pairs on which two observations differ.
type Mismatch struct {
	Comp, Item, Want, Got string
}

func Diff(want, got Obs) []Mismatch {
	var out []Mismatch
	for _, c := range Components {
		wm, gm := want[c], got[c]
		var items []string
		for k := range wm {
			items = append(items, k)
		}
		for k := range gm {
			if _, ok := wm[k]; !ok {
				items = append(items, k)
			}
		}
		sort.Strings(items)
		for _, it := range items {
			w, wok := wm[it]
			g, gok := gm[it]
			if !wok {
				w = "<unobserved>"
			}
			if !gok {
				g = "<unobserved>"
			}
			if w != g {
				out = append(out, Mismatch{c, it, w, g})
			}
		}
	}
	return out
}

// ParseCanon parses the canonical rendering produced by Elem.String for
// elements whose ids and labels contain no ':' '(' ')' or spaces (true for
// the history alphabets).
func ParseCanon(c string) (Elem, bool) {
	if len(c) < 4 || c[len(c)-1] != ')' {
		return Elem{}, false
	}
	body := c[2 : len(c)-1]
	if c[0] == 'V' {
		p := strings.SplitN(body, ":", 3)
		if len(p) != 3 {
			return Elem{}, false
		}
		return Elem{ID: p[0], Label: p[1], Data: parseData(p[2])}, true
	}
	p := strings.SplitN(body, ":", 4)
	if len(p) != 4 {
		return Elem{}, false
	}
	ft := strings.SplitN(p[1], "->", 2)
	if len(ft) != 2 {
		return Elem{}, false
	}
	return Elem{Edge: true, ID: p[0], From: ft[0], To: ft[1], Label: p[2], Data: parseData(p[3])}, true
}

func parseData(s string) map[string]any {
	if s == "{}" || s == "" {
		return nil
	}
	var m map[string]any
	if json.Unmarshal([]byte(s), &m) != nil || len(m) == 0 {
		return nil
	}
	return m
}
