// Package qrun compiles and runs GripQL statements on a real GraphInterface
// through the production compiler and pipeline, returning canonical rows.
package qrun

import (
	"context"
	"encoding/json"
	"fmt"
	"sort"
	"time"

	"github.com/bmeg/grip/engine/pipeline"
	"github.com/bmeg/grip/gdbi"
	"github.com/bmeg/grip/gripql"
	"github.com/bmeg/grip/kvi"
	"google.golang.org/protobuf/encoding/protojson"

	"verif/harness/memkv"
)

// MemManager hands out in-memory temporary stores (the production manager
// opens a Badger directory per request).
type MemManager struct{}

func (MemManager) GetTempKV() kvi.KVInterface { return memkv.New() }
func (MemManager) Cleanup()                   {}

// CanonRow renders a query result canonically (sorted keys, compact).
func CanonRow(r *gripql.QueryResult) string {
	if r == nil {
		return "null"
	}
	b, err := protojson.Marshal(r)
	if err != nil {
		return "marshal-error:" + err.Error()
	}
	var v any
	if json.Unmarshal(b, &v) != nil {
		return string(b)
	}
	o, _ := json.Marshal(v)
	return string(o)
}

// Result of one run.
type Result struct {
	Rows       []string // canonical rows in arrival order
	CompileErr error
	TimedOut   bool
	DataType   gdbi.DataType
}

// Sorted returns the rows as a sorted multiset.
func (r Result) Sorted() []string {
	o := append([]string{}, r.Rows...)
	sort.Strings(o)
	return o
}

// Run compiles stmts with the given compiler and runs the pipeline.
func Run(comp gdbi.Compiler, stmts []*gripql.GraphStatement, timeout time.Duration) Result {
	pipe, err := comp.Compile(stmts, nil)
	if err != nil {
		return Result{CompileErr: err}
	}
	return RunPipe(pipe, timeout)
}

// RunPipe runs an already compiled pipeline.
func RunPipe(pipe gdbi.Pipeline, timeout time.Duration) Result {
	ctx, cancel := context.WithCancel(context.Background())
	defer cancel()
	res := Result{DataType: pipe.DataType()}
	out := pipeline.Start(ctx, pipe, MemManager{}, 5000, nil, nil)
	// the timeout is an IDLE timeout (no traveler for that long), so a slow machine or a large answer is
	// never mistaken for a traversal that does not finish; a hard cap of 40 timeouts bounds endless streams
	timer := time.NewTimer(timeout)
	defer timer.Stop()
	hard := time.NewTimer(40 * timeout)
	defer hard.Stop()
	for {
		select {
		case t, ok := <-out:
			if !ok {
				return res
			}
			if !timer.Stop() {
				select {
				case <-timer.C:
				default:
				}
			}
			timer.Reset(timeout)
			if !t.IsSignal() {
				res.Rows = append(res.Rows, CanonRow(pipeline.Convert(pipe.Graph(), pipe.DataType(), pipe.MarkTypes(), t)))
			}
		case <-timer.C:
			res.TimedOut = true
			return res
		case <-hard.C:
			res.TimedOut = true
			return res
		}
	}
}

// Describe renders statements compactly.
func Describe(stmts []*gripql.GraphStatement) string {
	q := &gripql.Query{Statements: stmts}
	return fmt.Sprint(q.String())
}
