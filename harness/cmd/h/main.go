// Command h is the single harness binary: h <property> <tier> | h <property> --replay <file>
package main

import (
	"encoding/json"
	"fmt"
	"os"

	"verif/harness/checks"
	"verif/harness/vf"
)

func main() {
	if len(os.Args) < 3 {
		fmt.Fprintln(os.Stderr, "usage: h <ID> quick|thorough | h <ID> --replay <file>")
		os.Exit(2)
	}
	// grip prints diagnostics with fmt.Printf; keep the protocol channel clean
	vf.Out = os.Stdout
	if dn, err := os.OpenFile(os.DevNull, os.O_WRONLY, 0); err == nil && os.Getenv("VERIF_LOG") == "" {
		os.Stdout = dn
	}
	id, tier := os.Args[1], os.Args[2]
	f, ok := checks.Registry[id]
	if !ok {
		fmt.Fprintf(os.Stderr, "no check for %s\n", id)
		os.Exit(2)
	}
	args := os.Args[3:]
	if tier == "--replay" {
		if len(args) < 1 {
			fmt.Fprintln(os.Stderr, "usage: h <ID> --replay <file>")
			os.Exit(2)
		}
		var rec struct{ Property, Sig, Tier string }
		data, err := os.ReadFile(args[0])
		if err == nil {
			err = json.Unmarshal(data, &rec)
		}
		if err != nil || rec.Sig == "" || rec.Property != id {
			fmt.Fprintf(os.Stderr, "%s is not a replay file of %s: %v\n", args[0], id, err)
			os.Exit(2)
		}
		vf.ReplaySig, vf.ReplayFile = rec.Sig, args[0]
		tier, args = rec.Tier, nil
		if tier == "" {
			tier = "quick"
		}
	}
	os.Exit(f(tier, args))
}
