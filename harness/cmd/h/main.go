// Command h is the single harness binary: h <property> <tier> | h <property> --replay <file>
package main

import (
	"fmt"
	"os"

	"verif/harness/checks"
)

func main() {
	if len(os.Args) < 3 {
		fmt.Fprintln(os.Stderr, "usage: h <ID> quick|thorough | h <ID> --replay <file>")
		os.Exit(2)
	}
	id, tier := os.Args[1], os.Args[2]
	f, ok := checks.Registry[id]
	if !ok {
		fmt.Fprintf(os.Stderr, "no check for %s\n", id)
		os.Exit(2)
	}
	os.Exit(f(tier, os.Args[3:]))
}
