// Command h is the single harness binary: h <property> <tier> | h <property> --replay <file>
package main

import (
	"fmt"
	"os"

	"verif/harness/checks"
	"verif/harness/vf"
)

func main() {
	if len(os.Args) < 3 {
		fmt.Fprintln(os.Stderr, "usage: h <ID> quick|thorough | h <ID> --replay <file>")
		os.Exit(2)
	}
	// grip prints diagnostics with fmt.Printf; keep the protocol channel clean
	vf.Out = os.Stdout
	if dn, err := os.OpenFile(os.DevNull, os.O_WRONLY, 0); err == nil && os.Getenv("VERIF_LOG") == "" {
		os.Stdout = dn
	}
	id, tier := os.Args[1], os.Args[2]
	f, ok := checks.Registry[id]
	if !ok {
		fmt.Fprintf(os.Stderr, "no check for %s\n", id)
		os.Exit(2)
	}
	os.Exit(f(tier, os.Args[3:]))
}
