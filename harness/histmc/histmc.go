// Package histmc is the explicit-state search engine over API histories: a
// state is the history that reaches it, a successor is computed by the caller
// (fresh real object + replay + one operation + oracle) and identified by a
// canonical key for deduplication. The search is level-synchronous breadth
// first, so the first counterexample of any class is a shortest one, and the
// per-level expansion is spread over all cores.
package histmc

import (
	"runtime"
	"sort"
	"sync"
	"time"
)

// Stats describes what a search covered.
type Stats struct {
	States        int   // distinct canonical states (including the initial one)
	Transitions   int   // successor computations (each one is a replay on the real code)
	DepthDone     int   // last depth whose frontier was completely expanded
	FrontierLeft  int   // states at depth DepthDone+1 that were generated but not expanded
	PerDepth      []int // new states per depth
	Pruned        int   // successors the caller asked not to expand
	Exhaustive    bool  // no cap/deadline hit up to DepthDone == requested depth
	DeadlineHit   bool
	ReachedFix    bool // the frontier became empty: the whole reachable space was covered
	TransitionsBy map[string]int
}

// Succ is what the caller returns for one transition.
type Succ[S any] struct {
	State S
	Key   string // canonical key; "" = do not expand further (pruned)
}

// BFS explores histories up to `depth` operations.
// expand must be safe for concurrent use.
func BFS[S any, O any](init S, initKey string, ops []O, depth int, deadline time.Time,
	expand func(s S, op O) Succ[S]) Stats {
	st := Stats{States: 1, PerDepth: []int{1}}
	seen := map[string]bool{initKey: true}
	frontier := []S{init}
	workers := runtime.NumCPU()
	for d := 1; d <= depth; d++ {
		if len(frontier) == 0 {
			st.ReachedFix = true
			st.DepthDone = depth
			break
		}
		type res struct {
			idx  int
			succ []Succ[S]
		}
		results := make([][]Succ[S], len(frontier))
		var wg sync.WaitGroup
		var mu sync.Mutex
		next := 0
		expired := false
		for w := 0; w < workers; w++ {
			wg.Add(1)
			go func() {
				defer wg.Done()
				for {
					mu.Lock()
					i := next
					next++
					if !deadline.IsZero() && time.Now().After(deadline) {
						expired = true
					}
					stop := expired
					mu.Unlock()
					if i >= len(frontier) || stop {
						return
					}
					out := make([]Succ[S], 0, len(ops))
					for _, op := range ops {
						out = append(out, expand(frontier[i], op))
					}
					results[i] = out
				}
			}()
		}
		wg.Wait()
		if expired {
			st.DeadlineHit = true
			done := 0
			for _, r := range results {
				if r != nil {
					done++
					st.Transitions += len(r)
				}
			}
			st.FrontierLeft = len(frontier) - done
			return st
		}
		var nf []S
		newStates := 0
		for _, r := range results {
			for _, s := range r {
				st.Transitions++
				if s.Key == "" {
					st.Pruned++
					continue
				}
				if seen[s.Key] {
					continue
				}
				seen[s.Key] = true
				newStates++
				nf = append(nf, s.State)
			}
		}
		st.States += newStates
		st.PerDepth = append(st.PerDepth, newStates)
		st.DepthDone = d
		frontier = nf
	}
	st.FrontierLeft = len(frontier)
	if len(frontier) == 0 {
		st.ReachedFix = true
	}
	st.Exhaustive = !st.DeadlineHit
	return st
}

// SortedKeys is a small helper for canonical keys.
func SortedKeys(m map[string]bool) []string {
	var o []string
	for k, v := range m {
		if v {
			o = append(o, k)
		}
	}
	sort.Strings(o)
	return o
}
