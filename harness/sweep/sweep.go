// Package sweep runs a large indexed enumeration in crash-isolated worker
// subprocesses. A process-killing panic (a panic in a pipeline goroutine cannot
// be recovered by the caller) is attributed to the exact item and the sweep
// resumes after it.
package sweep

import (
	"bufio"
	"bytes"
	"encoding/json"
	"fmt"
	"io"
	"os"
	"os/exec"
	"runtime"
	"strconv"
	"strings"
	"sync"
	"time"

	"verif/harness/vf"
)

// Stats are additive counters reported by workers.
type Stats map[string]int

// Result of a sweep.
type Result struct {
	Items       int
	Done        int
	Crashes     int
	Hangs       int
	Stats       Stats
	Samples     []string
	DeadlineHit bool
}

// Worker is implemented by a check: Item runs one index and reports violations
// through the emit callback; counters go into st.
type Worker interface {
	N() int
	Item(idx int, emit func(vf.Violation), st Stats, sample func(string))
	Describe(idx int) string
}

// IsWorker tells whether the process was started as a sweep worker.
func IsWorker(args []string) bool { return len(args) > 0 && args[0] == "--worker" }

// RunWorker is the worker-side main loop. args = ["--worker", shard, nshards, from]
func RunWorker(w Worker, args []string) int {
	shard, _ := strconv.Atoi(args[1])
	nsh, _ := strconv.Atoi(args[2])
	from, _ := strconv.Atoi(args[3])
	out := bufio.NewWriter(vf.Out)
	st := Stats{}
	nsamples := 0
	items := 0
	flushStats := func() {
		if len(st) == 0 {
			return
		}
		b, _ := json.Marshal(st)
		fmt.Fprintf(out, "P%s\n", b)
		for k := range st {
			delete(st, k)
		}
	}
	for i := from; i < w.N(); i++ {
		if i%nsh != shard {
			continue
		}
		// the counters of completed items are handed over before the next item starts,
		// so a crash loses nothing but the crashing item
		flushStats()
		items++
		fmt.Fprintf(out, "@%d\n", i)
		out.Flush()
		w.Item(i, func(v vf.Violation) {
			b, _ := json.Marshal(v)
			fmt.Fprintf(out, "V%s\n", b)
		}, st, func(s string) {
			if nsamples < 3 {
				nsamples++
				b, _ := json.Marshal(s)
				fmt.Fprintf(out, "E%s\n", b)
			}
		})
	}
	flushStats()
	fmt.Fprintf(out, "S{}\n")
	out.Flush()
	return 0
}

// Run is the parent side: it shards the index space over worker processes.
// crash is called with the item index and the tail of the worker's stderr.
func Run(run *vf.Run, id, tier string, w Worker, deadline time.Time, itemTimeout time.Duration, crash func(idx int, stderr string, hang bool)) Result {
	nsh := runtime.NumCPU()
	if n := w.N(); n < nsh {
		nsh = n
	}
	if nsh < 1 {
		nsh = 1
	}
	res := Result{Items: w.N(), Stats: Stats{}}
	var mu sync.Mutex
	var wg sync.WaitGroup
	for sh := 0; sh < nsh; sh++ {
		wg.Add(1)
		go func(sh int) {
			defer wg.Done()
			from := 0
			for {
				if !deadline.IsZero() && time.Now().After(deadline) {
					mu.Lock()
					res.DeadlineHit = true
					mu.Unlock()
					return
				}
				cmd := exec.Command(os.Args[0], id, tier, "--worker", strconv.Itoa(sh), strconv.Itoa(nsh), strconv.Itoa(from))
				cmd.Env = append(os.Environ(), "VERIF_WORKER=1")
				var stderr bytes.Buffer
				cmd.Stderr = &tailWriter{buf: &stderr, max: 1 << 16}
				stdout, _ := cmd.StdoutPipe()
				if err := cmd.Start(); err != nil {
					fmt.Fprintln(os.Stderr, "sweep: cannot start worker:", err)
					return
				}
				last := -1
				finished := false
				lines := make(chan string, 256)
				go func() {
					r := bufio.NewReaderSize(stdout, 1<<20)
					for {
						l, err := r.ReadString('\n')
						if l != "" {
							lines <- strings.TrimRight(l, "\n")
						}
						if err != nil {
							close(lines)
							return
						}
					}
				}()
				hang := false
			loop:
				for {
					var timeout <-chan time.Time
					if itemTimeout > 0 {
						timeout = time.After(itemTimeout)
					}
					select {
					case l, ok := <-lines:
						if !ok {
							break loop
						}
						if l == "" {
							continue
						}
						switch l[0] {
						case '@':
							last, _ = strconv.Atoi(l[1:])
							mu.Lock()
							res.Done++
							mu.Unlock()
						case 'V':
							var v vf.Violation
							if json.Unmarshal([]byte(l[1:]), &v) == nil {
								run.Report(v)
							}
						case 'E':
							var s string
							if json.Unmarshal([]byte(l[1:]), &s) == nil {
								mu.Lock()
								if len(res.Samples) < 8 {
									res.Samples = append(res.Samples, s)
								}
								mu.Unlock()
							}
						case 'P':
							var st Stats
							if json.Unmarshal([]byte(l[1:]), &st) == nil {
								mu.Lock()
								for k, n := range st {
									res.Stats[k] += n
								}
								mu.Unlock()
							}
						case 'S':
							var st Stats
							if json.Unmarshal([]byte(l[1:]), &st) == nil {
								mu.Lock()
								for k, n := range st {
									res.Stats[k] += n
								}
								mu.Unlock()
								finished = true
							}
						}
					case <-timeout:
						hang = true
						cmd.Process.Kill()
						break loop
					}
				}
				cmd.Wait()
				if finished {
					return
				}
				// the worker died (or hung) while running item `last`
				mu.Lock()
				if hang {
					res.Hangs++
				} else {
					res.Crashes++
				}
				mu.Unlock()
				if last < 0 {
					fmt.Fprintln(os.Stderr, "sweep: worker died before its first item:", stderr.String())
					return
				}
				crash(last, stderr.String(), hang)
				from = last + 1
			}
		}(sh)
	}
	wg.Wait()
	return res
}

type tailWriter struct {
	buf *bytes.Buffer
	max int
}

func (t *tailWriter) Write(p []byte) (int, error) {
	t.buf.Write(p)
	if t.buf.Len() > 2*t.max {
		b := t.buf.Bytes()
		keep := append([]byte{}, b[len(b)-t.max:]...)
		t.buf.Reset()
		t.buf.Write(keep)
	}
	return len(p), nil
}

var _ io.Writer = (*tailWriter)(nil)

// PanicSite extracts "message @ first grip frame" from a Go crash dump.
func PanicSite(stderr string) string {
	msg := ""
	site := ""
	lines := strings.Split(stderr, "\n")
	for i, l := range lines {
		if msg == "" && (strings.HasPrefix(l, "panic: ") || strings.HasPrefix(l, "fatal error: ")) {
			msg = l
			if len(msg) > 160 {
				msg = msg[:160]
			}
		}
		if msg != "" && site == "" && strings.HasPrefix(l, "github.com/bmeg/grip/") && i+1 < len(lines) {
			f := strings.TrimSpace(l)
			if j := strings.LastIndex(f, "("); j > 0 {
				f = f[:j]
			}
			site = strings.TrimPrefix(f, "github.com/bmeg/grip/")
		}
	}
	if msg == "" {
		return "unknown-crash"
	}
	// normalise addresses / numbers in the message
	msg = normaliseNumbers(msg)
	return msg + " @ " + site
}

func normaliseNumbers(s string) string {
	var b strings.Builder
	inNum := false
	for _, c := range s {
		if c >= '0' && c <= '9' {
			if !inNum {
				b.WriteByte('N')
			}
			inNum = true
			continue
		}
		inNum = false
		b.WriteRune(c)
	}
	return b.String()
}
