package memkv

import (
	"github.com/bmeg/grip/kvi"
)

// CrashSignal is the panic value used to abort a call at a crash point.
type CrashSignal struct{ At int }

// Fault wraps a KV and numbers the top-level writes a caller issues: Set,
// Delete, DeletePrefix, a committed Update and a committed BulkWrite (each is
// atomic in the underlying store - exactly the granularity C04 names).
// When Armed, the call panics with CrashSignal right before write number CrashAt.
type Fault struct {
	*KV
	N       int // top-level writes seen since Reset
	Armed   bool
	CrashAt int
}

// NewFault wraps kv.
func NewFault(kv *KV) *Fault { return &Fault{KV: kv} }

// Reset clears the counter and disarms.
func (f *Fault) Reset() { f.N = 0; f.Armed = false }

func (f *Fault) point() {
	if f.Armed && f.N == f.CrashAt {
		panic(CrashSignal{f.N})
	}
	f.N++
}

func (f *Fault) Set(k, v []byte) error {
	f.point()
	return f.KV.Set(k, v)
}
func (f *Fault) Delete(k []byte) error {
	f.point()
	return f.KV.Delete(k)
}
func (f *Fault) DeletePrefix(k []byte) error {
	f.point()
	return f.KV.DeletePrefix(k)
}
func (f *Fault) Update(u func(tx kvi.KVTransaction) error) error {
	return f.KV.Update(func(tx kvi.KVTransaction) error {
		if err := u(tx); err != nil {
			return err
		}
		f.point() // the commit is the write
		return nil
	})
}
func (f *Fault) BulkWrite(u func(tx kvi.KVBulkWrite) error) error {
	return f.KV.BulkWrite(func(tx kvi.KVBulkWrite) error {
		if err := u(tx); err != nil {
			return err
		}
		f.point()
		return nil
	})
}
