// Package memkv is a deliberately boring ordered byte-string map implementing
// kvi.KVInterface. It is the reference model for C10 and the fast, snapshot-able
// store under the graph level checks.
//
// Semantics (the "sorted map" reading of kvi/interface.go):
//   - keys are compared bytewise; values may be empty
//   - Get of an absent key is an error; HasKey tells presence
//   - View runs on a snapshot taken when View starts
//   - Update / BulkWrite run on a private copy that is published iff the
//     callback returns nil (atomic, rollback on error); a transaction sees its
//     own writes through Get/HasKey/View
//   - Seek(k) positions on the least key >= k, SeekReverse(k) on the greatest
//     key <= k; Next moves in the direction of the last seek; when there is no
//     such key the iterator is invalid (Valid()==false, Key()==nil)
package memkv

import (
	"bytes"
	"fmt"
	"sort"
	"sync"
	"sync/atomic"

	"github.com/bmeg/grip/kvi"
)

type pair struct {
	k, v []byte
}

type table []pair

func (t table) find(k []byte) (int, bool) {
	i := sort.Search(len(t), func(i int) bool { return bytes.Compare(t[i].k, k) >= 0 })
	return i, i < len(t) && bytes.Equal(t[i].k, k)
}

func cp(b []byte) []byte {
	o := make([]byte, len(b))
	copy(o, b)
	return o
}

func (t table) clone() table {
	o := make(table, len(t), len(t)+4)
	copy(o, t)
	return o
}

func (t table) set(k, v []byte) table {
	i, ok := t.find(k)
	if ok {
		t[i] = pair{t[i].k, cp(v)}
		return t
	}
	t = append(t, pair{})
	copy(t[i+1:], t[i:])
	t[i] = pair{cp(k), cp(v)}
	return t
}

func (t table) del(k []byte) table {
	i, ok := t.find(k)
	if !ok {
		return t
	}
	copy(t[i:], t[i+1:])
	return t[:len(t)-1]
}

// Locker lets a controlled scheduler replace the writer lock.
type Locker interface {
	Lock()
	Unlock()
}

// Hook is called before every top level operation (used for scheduling points
// and fault injection). It may be nil.
type Hook func(op string, key []byte)

// KV is the in-memory store.
type KV struct {
	cur    atomic.Value // table (immutable once published)
	wl     Locker
	Hook   Hook
	Closed bool
	// Writes counts published top-level writes.
	Writes int
}

// New returns an empty store.
func New() *KV {
	kv := &KV{wl: &sync.Mutex{}}
	kv.cur.Store(table{})
	return kv
}

// SetLocker replaces the writer lock (before any use).
func (kv *KV) SetLocker(l Locker) { kv.wl = l }

func (kv *KV) hook(op string, key []byte) {
	if kv.Hook != nil {
		kv.Hook(op, key)
	}
}

func (kv *KV) load() table { return kv.cur.Load().(table) }

// Clone returns an independent copy of the current contents (same hook-less state).
func (kv *KV) Clone() *KV {
	o := New()
	o.cur.Store(kv.load())
	return o
}

// Dump returns all pairs in key order.
func (kv *KV) Dump() [][2][]byte {
	t := kv.load()
	out := make([][2][]byte, len(t))
	for i, p := range t {
		out[i] = [2][]byte{p.k, p.v}
	}
	return out
}

// DumpString is a canonical printable rendering of the contents.
func (kv *KV) DumpString() string {
	var b bytes.Buffer
	for _, p := range kv.load() {
		fmt.Fprintf(&b, "%q=%q;", p.k, p.v)
	}
	return b.String()
}

// Len is the number of keys.
func (kv *KV) Len() int { return len(kv.load()) }

func (kv *KV) HasKey(key []byte) bool {
	kv.hook("HasKey", key)
	_, ok := kv.load().find(key)
	return ok
}

func (kv *KV) Get(key []byte) ([]byte, error) {
	kv.hook("Get", key)
	t := kv.load()
	i, ok := t.find(key)
	if !ok {
		return nil, fmt.Errorf("memkv: key not found")
	}
	return cp(t[i].v), nil
}

func (kv *KV) Set(key, value []byte) error {
	kv.hook("Set", key)
	kv.wl.Lock()
	defer kv.wl.Unlock()
	kv.cur.Store(kv.load().clone().set(key, value))
	kv.Writes++
	return nil
}

func (kv *KV) Delete(key []byte) error {
	kv.hook("Delete", key)
	kv.wl.Lock()
	defer kv.wl.Unlock()
	kv.cur.Store(kv.load().clone().del(key))
	kv.Writes++
	return nil
}

func (kv *KV) DeletePrefix(prefix []byte) error {
	kv.hook("DeletePrefix", prefix)
	kv.wl.Lock()
	defer kv.wl.Unlock()
	t := kv.load()
	o := make(table, 0, len(t))
	for _, p := range t {
		if !bytes.HasPrefix(p.k, prefix) {
			o = append(o, p)
		}
	}
	kv.cur.Store(o)
	kv.Writes++
	return nil
}

func (kv *KV) View(f func(it kvi.KVIterator) error) error {
	kv.hook("View", nil)
	t := kv.load()
	return f(&iter{get: func() table { return t }})
}

func (kv *KV) Update(f func(tx kvi.KVTransaction) error) error {
	kv.hook("Update", nil)
	kv.wl.Lock()
	defer kv.wl.Unlock()
	tx := &txn{t: kv.load().clone()}
	if err := f(tx); err != nil {
		return err
	}
	kv.hook("Commit", nil)
	kv.cur.Store(tx.t)
	kv.Writes++
	return nil
}

func (kv *KV) BulkWrite(f func(bl kvi.KVBulkWrite) error) error {
	kv.hook("BulkWrite", nil)
	kv.wl.Lock()
	defer kv.wl.Unlock()
	tx := &txn{t: kv.load().clone()}
	if err := f(tx); err != nil {
		return err
	}
	kv.hook("Commit", nil)
	kv.cur.Store(tx.t)
	kv.Writes++
	return nil
}

func (kv *KV) Close() error {
	kv.Closed = true
	return nil
}

type txn struct {
	t table
}

func (tx *txn) Get(key []byte) ([]byte, error) {
	i, ok := tx.t.find(key)
	if !ok {
		return nil, fmt.Errorf("memkv: key not found")
	}
	return cp(tx.t[i].v), nil
}
func (tx *txn) HasKey(key []byte) bool { _, ok := tx.t.find(key); return ok }
func (tx *txn) Set(key, value []byte) error {
	tx.t = tx.t.set(key, value)
	return nil
}
func (tx *txn) Delete(key []byte) error {
	tx.t = tx.t.del(key)
	return nil
}
func (tx *txn) View(f func(it kvi.KVIterator) error) error {
	// the iterator sees the transaction's own writes, positioned by key so
	// that writes during iteration keep a well defined meaning
	return f(&iter{get: func() table { return tx.t }})
}

type iter struct {
	get     func() table
	key     []byte
	val     []byte
	forward bool
}

func (it *iter) Get(key []byte) ([]byte, error) {
	t := it.get()
	i, ok := t.find(key)
	if !ok {
		return nil, fmt.Errorf("memkv: key not found")
	}
	return cp(t[i].v), nil
}

func (it *iter) setAt(t table, i int) error {
	if i < 0 || i >= len(t) {
		it.key, it.val = nil, nil
		return fmt.Errorf("memkv: iterator invalid")
	}
	it.key, it.val = cp(t[i].k), cp(t[i].v)
	return nil
}

func (it *iter) Seek(k []byte) error {
	it.forward = true
	t := it.get()
	i, _ := t.find(k)
	return it.setAt(t, i)
}

func (it *iter) SeekReverse(k []byte) error {
	it.forward = false
	t := it.get()
	i, ok := t.find(k)
	if !ok {
		i--
	}
	return it.setAt(t, i)
}

func (it *iter) Valid() bool { return it.key != nil }
func (it *iter) Key() []byte { return it.key }
func (it *iter) Value() ([]byte, error) {
	if it.key == nil {
		return nil, fmt.Errorf("memkv: iterator invalid")
	}
	return it.val, nil
}

func (it *iter) Next() error {
	if it.key == nil {
		return fmt.Errorf("memkv: iterator invalid")
	}
	t := it.get()
	i, ok := t.find(it.key)
	if it.forward {
		if ok {
			i++
		}
	} else {
		i--
	}
	return it.setAt(t, i)
}
