// Package refsem is the reference reading of the GripQL documentation
// (website/content/docs/queries/*.md), written to be boring.
package refsem

import (
	"encoding/json"
	"fmt"
	"reflect"
	"strconv"
	"strings"

	"github.com/bmeg/grip/gripql"
)

// Num returns the numeric reading of a JSON value: numbers and numeric text.
func Num(v any) (float64, bool) {
	switch x := v.(type) {
	case float64:
		return x, true
	case string:
		f, err := strconv.ParseFloat(x, 64)
		if err != nil {
			return 0, false
		}
		return f, true
	}
	return 0, false
}

// JSONEq is strict JSON equality (a missing value is null).
func JSONEq(a, b any) bool { return reflect.DeepEqual(a, b) }

// Undefined is returned by Cond for combinations the documentation does not define.
type Tri int

const (
	False Tri = iota
	True
	Undefined
)

func b2t(b bool) Tri {
	if b {
		return True
	}
	return False
}

func pair(arg any) (lo, hi float64, ok bool) {
	l, isList := arg.([]any)
	if !isList || len(l) != 2 {
		return 0, 0, false
	}
	lo, ok1 := Num(l[0])
	hi, ok2 := Num(l[1])
	return lo, hi, ok1 && ok2
}

// Cond evaluates one condition on a looked-up value.
func Cond(op gripql.Condition, val any, arg any) Tri {
	switch op {
	case gripql.Condition_EQ:
		return b2t(JSONEq(val, arg))
	case gripql.Condition_NEQ:
		return b2t(!JSONEq(val, arg))
	case gripql.Condition_GT, gripql.Condition_GTE, gripql.Condition_LT, gripql.Condition_LTE:
		a, ok1 := Num(val)
		b, ok2 := Num(arg)
		if !ok1 || !ok2 {
			return False
		}
		switch op {
		case gripql.Condition_GT:
			return b2t(a > b)
		case gripql.Condition_GTE:
			return b2t(a >= b)
		case gripql.Condition_LT:
			return b2t(a < b)
		}
		return b2t(a <= b)
	case gripql.Condition_INSIDE, gripql.Condition_OUTSIDE, gripql.Condition_BETWEEN:
		lo, hi, ok := pair(arg)
		a, okv := Num(val)
		if !ok || !okv {
			return False
		}
		switch op {
		case gripql.Condition_INSIDE:
			return b2t(a > lo && a < hi)
		case gripql.Condition_OUTSIDE:
			return b2t(a < lo || a > hi)
		}
		return b2t(a >= lo && a < hi)
	case gripql.Condition_WITHIN, gripql.Condition_WITHOUT:
		l, isList := arg.([]any)
		if !isList {
			if op == gripql.Condition_WITHIN {
				return False
			}
			return Undefined // "not within the provided values" with something that is not a list of values
		}
		found := false
		for _, x := range l {
			if JSONEq(val, x) {
				found = true
			}
		}
		if op == gripql.Condition_WITHIN {
			return b2t(found)
		}
		return b2t(!found)
	case gripql.Condition_CONTAINS:
		l, isList := val.([]any)
		if !isList {
			return False
		}
		for _, x := range l {
			if JSONEq(x, arg) {
				return True
			}
		}
		return False
	}
	return Undefined
}

// Has evaluates a has-expression; lookup resolves a key to a JSON value (nil = missing).
func Has(e *gripql.HasExpression, lookup func(key string) any) Tri {
	switch x := e.Expression.(type) {
	case *gripql.HasExpression_Condition:
		return Cond(x.Condition.Condition, lookup(x.Condition.Key), x.Condition.Value.AsInterface())
	case *gripql.HasExpression_And:
		r := True
		for _, s := range x.And.Expressions {
			switch Has(s, lookup) {
			case Undefined:
				return Undefined
			case False:
				r = False
			}
		}
		return r
	case *gripql.HasExpression_Or:
		r := False
		for _, s := range x.Or.Expressions {
			switch Has(s, lookup) {
			case Undefined:
				return Undefined
			case True:
				r = True
			}
		}
		return r
	case *gripql.HasExpression_Not:
		switch Has(x.Not, lookup) {
		case Undefined:
			return Undefined
		case True:
			return False
		}
		return True
	}
	return Undefined
}

// HasString renders a has-expression completely (gripql.HasExpressionString drops the operator and
// prints nothing for and/or/not), e.g. and(not(INSIDE(f,[-1,1])),EQ(f,null)).
func HasString(e *gripql.HasExpression) string {
	if e == nil {
		return "<nil>"
	}
	join := func(l []*gripql.HasExpression) string {
		var s []string
		for _, x := range l {
			s = append(s, HasString(x))
		}
		return strings.Join(s, ",")
	}
	switch x := e.Expression.(type) {
	case *gripql.HasExpression_And:
		return "and(" + join(x.And.GetExpressions()) + ")"
	case *gripql.HasExpression_Or:
		return "or(" + join(x.Or.GetExpressions()) + ")"
	case *gripql.HasExpression_Not:
		return "not(" + HasString(x.Not) + ")"
	case *gripql.HasExpression_Condition:
		v, _ := json.Marshal(x.Condition.GetValue().AsInterface())
		return fmt.Sprintf("%s(%s,%s)", x.Condition.GetCondition(), x.Condition.GetKey(), v)
	}
	return "<empty>"
}
