package refsem

// A deliberately boring list-in/list-out interpreter of the documented step
// meanings (see DESIGN.md appendix B for the conventions).

import (
	"encoding/json"
	"fmt"
	"sort"
	"strings"

	"github.com/bmeg/grip/gripql"
	"google.golang.org/protobuf/types/known/structpb"

	"verif/harness/gmodel"
)

// Step is one statement instance of a program alphabet.
type Step struct {
	Op   string // V E out in both outE inE bothE has hasLabel hasId hasKey as select fields render path unwind distinct count limit skip range
	Strs []string
	Has  *gripql.HasExpression
	A, B int
	Tmpl any
}

// Name renders the step.
func (s Step) Name() string {
	switch s.Op {
	case "has":
		return "has(" + gripql.HasExpressionString(s.Has) + ")"
	case "limit", "skip":
		return fmt.Sprintf("%s(%d)", s.Op, s.A)
	case "range":
		return fmt.Sprintf("range(%d,%d)", s.A, s.B)
	case "render":
		b, _ := json.Marshal(s.Tmpl)
		return "render(" + string(b) + ")"
	}
	return fmt.Sprintf("%s(%s)", s.Op, strings.Join(s.Strs, ","))
}

// ProgName renders a program.
func ProgName(p []Step) string {
	var s []string
	for _, x := range p {
		s = append(s, x.Name())
	}
	return strings.Join(s, ".")
}

// Stmt converts the step to the wire statement.
func (s Step) Stmt() *gripql.GraphStatement {
	q := gripql.NewQuery()
	switch s.Op {
	case "V":
		q = q.V(s.Strs...)
	case "E":
		q = q.E(s.Strs...)
	case "out":
		q = q.Out(s.Strs...)
	case "in":
		q = q.In(s.Strs...)
	case "both":
		q = q.Both(s.Strs...)
	case "outE":
		q = q.OutE(s.Strs...)
	case "inE":
		q = q.InE(s.Strs...)
	case "bothE":
		q = q.BothE(s.Strs...)
	case "has":
		q = q.Has(s.Has)
	case "hasLabel":
		q = q.HasLabel(s.Strs...)
	case "hasId":
		q = q.HasID(s.Strs...)
	case "hasKey":
		q = q.HasKey(s.Strs...)
	case "as":
		q = q.As(s.Strs[0])
	case "select":
		q = q.Select(s.Strs...)
	case "fields":
		q = q.Fields(s.Strs...)
	case "render":
		q = q.Render(s.Tmpl)
	case "path":
		l, _ := structpb.NewList(nil)
		return &gripql.GraphStatement{Statement: &gripql.GraphStatement_Path{Path: l}}
	case "unwind":
		return &gripql.GraphStatement{Statement: &gripql.GraphStatement_Unwind{Unwind: s.Strs[0]}}
	case "distinct":
		q = q.Distinct(s.Strs...)
	case "count":
		q = q.Count()
	case "limit":
		q = q.Limit(uint32(s.A))
	case "skip":
		q = q.Skip(uint32(s.A))
	case "range":
		q = q.Range(int32(s.A), int32(s.B))
	default:
		panic("refsem: unknown step " + s.Op)
	}
	return q.Statements[0]
}

// Stmts converts a program.
func Stmts(p []Step) []*gripql.GraphStatement {
	var o []*gripql.GraphStatement
	for _, s := range p {
		o = append(o, s.Stmt())
	}
	return o
}

// ---------------------------------------------------------------- typing

// Kind of row a program prefix produces.
type Kind int

const (
	KNone Kind = iota
	KVertex
	KEdge
	KCount
	KSelection
	KRender
	KPath
)

// Typing is the result of the static check.
type Typing int

const (
	WellTyped   Typing = iota
	IllTyped           // must be rejected with an error
	Unspecified        // the documentation does not say (excluded from the oracle)
)

// TypeOf statically types a program. It also reports the result kind and the mark kinds.
func TypeOf(p []Step) (Typing, Kind, map[string]Kind) {
	k := KNone
	marks := map[string]Kind{}
	elem := func() bool { return k == KVertex || k == KEdge }
	truncSeen := false
	for i, s := range p {
		if i == 0 && s.Op != "V" && s.Op != "E" {
			return IllTyped, k, marks
		}
		if truncSeen && (s.Op != "count" || i != len(p)-1) {
			// which rows survive a truncation is not specified; only the count after it is
			return Unspecified, k, marks
		}
		for _, ref := range markRefs(s) {
			if _, ok := marks[ref]; !ok && elem() {
				// a filter/projection that reads a mark that is not defined (yet)
				return Unspecified, k, marks
			}
		}
		switch s.Op {
		case "V", "E":
			if i != 0 {
				return IllTyped, k, marks
			}
			k = KVertex
			if s.Op == "E" {
				k = KEdge
			}
		case "out", "in", "both":
			if !elem() {
				return IllTyped, k, marks
			}
			k = KVertex
		case "outE", "inE", "bothE":
			if k != KVertex {
				if k == KEdge {
					return IllTyped, k, marks
				}
				return IllTyped, k, marks
			}
			k = KEdge
		case "has", "hasLabel", "hasId", "hasKey", "distinct", "fields":
			if !elem() {
				return IllTyped, k, marks
			}
			if (s.Op == "hasLabel" || s.Op == "hasId" || s.Op == "hasKey") && len(s.Strs) == 0 {
				return IllTyped, k, marks
			}
		case "as":
			if !elem() {
				return Unspecified, k, marks
			}
			marks[s.Strs[0]] = k
		case "select":
			if !elem() {
				return IllTyped, k, marks
			}
			for _, m := range s.Strs {
				if _, ok := marks[m]; !ok {
					return Unspecified, k, marks
				}
			}
			if len(s.Strs) == 0 {
				return IllTyped, k, marks
			}
			if len(s.Strs) == 1 {
				k = marks[s.Strs[0]]
			} else {
				k = KSelection
			}
		case "render":
			if !elem() {
				return IllTyped, k, marks
			}
			k = KRender
		case "path":
			if !elem() {
				return IllTyped, k, marks
			}
			k = KPath
		case "unwind":
			if !elem() {
				return Unspecified, k, marks
			}
		case "count":
			k = KCount
		case "limit", "skip", "range":
			truncSeen = true
		}
	}
	return WellTyped, k, marks
}

// markRefs lists the marks a step reads through "$mark.field" keys.
func markRefs(s Step) []string {
	var keys []string
	switch s.Op {
	case "has":
		keys = hasKeys(s.Has)
	case "hasKey", "distinct", "unwind", "fields":
		keys = s.Strs
	case "render":
		keys = tmplKeys(s.Tmpl)
	}
	var out []string
	for _, k := range keys {
		k = strings.TrimPrefix(k, "-")
		if strings.HasPrefix(k, "$") {
			ns := strings.TrimPrefix(strings.SplitN(k, ".", 2)[0], "$")
			if ns != "" {
				out = append(out, ns)
			}
		}
	}
	return out
}

func hasKeys(e *gripql.HasExpression) []string {
	switch x := e.Expression.(type) {
	case *gripql.HasExpression_Condition:
		return []string{x.Condition.Key}
	case *gripql.HasExpression_And:
		var o []string
		for _, s := range x.And.Expressions {
			o = append(o, hasKeys(s)...)
		}
		return o
	case *gripql.HasExpression_Or:
		var o []string
		for _, s := range x.Or.Expressions {
			o = append(o, hasKeys(s)...)
		}
		return o
	case *gripql.HasExpression_Not:
		return hasKeys(x.Not)
	}
	return nil
}

func tmplKeys(t any) []string {
	switch x := t.(type) {
	case string:
		return []string{x}
	case map[string]any:
		var o []string
		for _, v := range x {
			o = append(o, tmplKeys(v)...)
		}
		return o
	case []any:
		var o []string
		for _, v := range x {
			o = append(o, tmplKeys(v)...)
		}
		return o
	}
	return nil
}

// ---------------------------------------------------------------- evaluation

type pathEl struct {
	Edge bool
	ID   string
}

type row struct {
	cur    *gmodel.Elem
	marks  map[string]*gmodel.Elem
	path   []pathEl
	pathOK bool // false once a step made the documented path meaning undefined
	count  uint32
	sel    map[string]*gmodel.Elem
	render any
}

func (r row) withCur(e *gmodel.Elem) row {
	n := r
	n.cur = e
	n.path = append(append([]pathEl{}, r.path...), pathEl{Edge: e.Edge, ID: e.ID})
	return n
}

// Result of the reference evaluation.
type Result struct {
	Rows      []string // canonical rows
	Undefined string   // non-empty: the documentation does not define this program on this graph
	Kind      Kind
	// for programs ending in a truncation (optionally followed by count): the
	// untruncated rows and the expected number of rows
	Trunc      bool
	TruncCount int
	TruncThenCount bool
}

func lookupElem(e *gmodel.Elem, field string) (any, bool) {
	if e == nil {
		return nil, false
	}
	switch field {
	case "_gid":
		return e.ID, true
	case "_label":
		return e.Label, true
	case "_from":
		if e.From == "" {
			return nil, false
		}
		return e.From, true
	case "_to":
		if e.To == "" {
			return nil, false
		}
		return e.To, true
	case "_data":
		if e.Data == nil {
			return map[string]any{}, true
		}
		return e.Data, true
	}
	var cur any = map[string]any(e.Data)
	for _, p := range strings.Split(field, ".") {
		m, ok := cur.(map[string]any)
		if !ok {
			return nil, false
		}
		cur, ok = m[p]
		if !ok {
			return nil, false
		}
	}
	return cur, true
}

// Lookup resolves a key ("n", "m.k", "_gid", "$mark.n", "$mark._gid").
func (r row) lookup(key string) (any, bool) {
	e := r.cur
	field := key
	if strings.HasPrefix(key, "$") {
		parts := strings.SplitN(key, ".", 2)
		ns := strings.TrimPrefix(parts[0], "$")
		if ns != "" {
			e = r.marks[ns]
		}
		if len(parts) < 2 {
			return nil, false
		}
		field = parts[1]
	}
	return lookupElem(e, field)
}

func hasL(l []string, s string) bool {
	if len(l) == 0 {
		return true
	}
	for _, x := range l {
		if x == s {
			return true
		}
	}
	return false
}

func in(l []string, s string) bool {
	for _, x := range l {
		if x == s {
			return true
		}
	}
	return false
}

func sortedEdges(g *gmodel.Graph) []gmodel.Elem {
	var ids []string
	for id := range g.E {
		ids = append(ids, id)
	}
	sort.Strings(ids)
	var o []gmodel.Elem
	for _, id := range ids {
		o = append(o, g.E[id])
	}
	return o
}

func renderT(r row, t any) any {
	switch x := t.(type) {
	case string:
		v, _ := r.lookup(x)
		return v
	case map[string]any:
		o := map[string]any{}
		for k, v := range x {
			o[k] = renderT(r, v)
		}
		return o
	case []any:
		o := make([]any, len(x))
		for i := range x {
			o[i] = renderT(r, x[i])
		}
		return o
	}
	return nil
}

func cloneData(d map[string]any) map[string]any {
	b, _ := json.Marshal(d)
	var o map[string]any
	json.Unmarshal(b, &o)
	if o == nil {
		o = map[string]any{}
	}
	return o
}

// Eval runs program p on graph g.
func Eval(g *gmodel.Graph, p []Step) Result {
	ty, kind, _ := TypeOf(p)
	res := Result{Kind: kind}
	if ty != WellTyped {
		res.Undefined = "not well-typed"
		return res
	}
	// truncation suffix
	body := p
	var trunc *Step
	if n := len(p); n >= 1 && (p[n-1].Op == "limit" || p[n-1].Op == "skip" || p[n-1].Op == "range") {
		trunc = &p[n-1]
		body = p[:n-1]
	} else if n >= 2 && p[n-1].Op == "count" && (p[n-2].Op == "limit" || p[n-2].Op == "skip" || p[n-2].Op == "range") {
		trunc = &p[n-2]
		body = p[:n-2]
		res.TruncThenCount = true
	}
	rows := []row{{marks: map[string]*gmodel.Elem{}, pathOK: true}}
	curKind := KNone
	markKinds := map[string]Kind{}
	for _, s := range body {
		var next []row
		switch s.Op {
		case "V":
			curKind = KVertex
			if len(s.Strs) == 0 {
				var ids []string
				for id := range g.V {
					ids = append(ids, id)
				}
				sort.Strings(ids)
				for _, id := range ids {
					v := g.V[id]
					next = append(next, rows[0].withCur(&v))
				}
			} else {
				for _, id := range s.Strs {
					if v, ok := g.V[id]; ok {
						vv := v
						next = append(next, rows[0].withCur(&vv))
					}
				}
			}
		case "E":
			curKind = KEdge
			if len(s.Strs) == 0 {
				for _, e := range sortedEdges(g) {
					ee := e
					next = append(next, rows[0].withCur(&ee))
				}
			} else {
				for _, id := range s.Strs {
					// by element id, not by map key: a multigraph fixture may hold several edges with one id
					for _, e := range sortedEdges(g) {
						if e.ID == id {
							ee := e
							next = append(next, rows[0].withCur(&ee))
						}
					}
				}
			}
		case "out", "in", "both", "outE", "inE", "bothE":
			for _, r := range rows {
				if curKind == KEdge {
					// from an edge: the endpoint vertices that exist; label lists have nothing to select
					add := func(id string) {
						if v, ok := g.V[id]; ok {
							vv := v
							next = append(next, r.withCur(&vv))
						}
					}
					if s.Op == "in" || s.Op == "both" {
						add(r.cur.From)
					}
					if s.Op == "out" || s.Op == "both" {
						add(r.cur.To)
					}
					continue
				}
				for _, e := range sortedEdges(g) {
					if !hasL(s.Strs, e.Label) {
						continue
					}
					ee := e
					isIn := e.To == r.cur.ID
					isOut := e.From == r.cur.ID
					switch s.Op {
					case "in", "both":
						if isIn {
							if v, ok := g.V[e.From]; ok {
								vv := v
								next = append(next, r.withCur(&vv))
							}
						}
					case "inE", "bothE":
						if isIn {
							next = append(next, r.withCur(&ee))
						}
					}
					switch s.Op {
					case "out", "both":
						if isOut {
							if v, ok := g.V[e.To]; ok {
								vv := v
								next = append(next, r.withCur(&vv))
							}
						}
					case "outE", "bothE":
						if isOut {
							next = append(next, r.withCur(&ee))
						}
					}
				}
			}
			if s.Op == "outE" || s.Op == "inE" || s.Op == "bothE" {
				curKind = KEdge
			} else {
				curKind = KVertex
			}
		case "has":
			for _, r := range rows {
				rr := r
				t := Has(s.Has, func(k string) any { v, _ := rr.lookup(k); return v })
				if t == Undefined {
					res.Undefined = "condition undefined by the documentation"
					return res
				}
				if t == True {
					next = append(next, r)
				}
			}
		case "hasLabel":
			for _, r := range rows {
				if in(s.Strs, r.cur.Label) {
					next = append(next, r)
				}
			}
		case "hasId":
			for _, r := range rows {
				if in(s.Strs, r.cur.ID) {
					next = append(next, r)
				}
			}
		case "hasKey":
			for _, r := range rows {
				ok := true
				for _, k := range s.Strs {
					if _, found := r.lookup(k); !found {
						ok = false
					}
				}
				if ok {
					next = append(next, r)
				}
			}
		case "as":
			markKinds[s.Strs[0]] = curKind
			for _, r := range rows {
				n := r
				n.marks = map[string]*gmodel.Elem{}
				for k, v := range r.marks {
					n.marks[k] = v
				}
				n.marks[s.Strs[0]] = r.cur
				next = append(next, n)
			}
		case "select":
			if len(s.Strs) == 1 {
				curKind = markKinds[s.Strs[0]]
				for _, r := range rows {
					next = append(next, r.withCur(r.marks[s.Strs[0]]))
				}
			} else {
				for _, r := range rows {
					n := row{sel: map[string]*gmodel.Elem{}}
					for _, m := range s.Strs {
						n.sel[m] = r.marks[m]
					}
					next = append(next, n)
				}
				curKind = KSelection
			}
		case "fields":
			for _, r := range rows {
				n := r
				e := *r.cur
				var inc, exc []string
				for _, k := range s.Strs {
					if strings.HasPrefix(k, "-") {
						exc = append(exc, strings.TrimPrefix(k, "-"))
					} else {
						inc = append(inc, k)
					}
				}
				nd := map[string]any{}
				switch {
				case len(s.Strs) == 0:
				case len(inc) > 0:
					for _, k := range inc {
						if v, ok := e.Data[k]; ok {
							nd[k] = v
						}
					}
				default:
					for k, v := range e.Data {
						if !in(exc, k) {
							nd[k] = v
						}
					}
				}
				e.Data = nd
				n.cur = &e
				n.pathOK = false
				next = append(next, n)
			}
		case "render":
			for _, r := range rows {
				next = append(next, row{render: renderT(r, s.Tmpl), pathOK: true})
			}
			curKind = KRender
		case "path":
			for _, r := range rows {
				if !r.pathOK {
					res.Undefined = "path() after fields/unwind is not defined by the documentation"
					return res
				}
				next = append(next, r)
			}
			curKind = KPath
		case "unwind":
			for _, r := range rows {
				v, ok := r.lookup(s.Strs[0])
				l, isList := v.([]any)
				if !ok || !isList || len(l) == 0 {
					res.Undefined = "unwind over a field that is missing, empty or not a list on some row"
					return res
				}
				for _, item := range l {
					n := r
					e := *r.cur
					e.Data = cloneData(e.Data)
					e.Data[s.Strs[0]] = item
					n.cur = &e
					n.pathOK = false
					next = append(next, n)
				}
			}
		case "distinct":
			fields := s.Strs
			if len(fields) == 0 {
				fields = []string{"_gid"}
			}
			groups := map[string][]row{}
			var order []string
			for _, r := range rows {
				var key []string
				for _, f := range fields {
					v, ok := r.lookup(f)
					if !ok {
						res.Undefined = "distinct over a field that is missing on some row"
						return res
					}
					b, _ := json.Marshal(v)
					key = append(key, string(b))
				}
				k := strings.Join(key, "\x00")
				if _, ok := groups[k]; !ok {
					order = append(order, k)
				}
				groups[k] = append(groups[k], r)
			}
			for _, k := range order {
				first := canonRow(groups[k][0], curKind, markKinds)
				for _, r := range groups[k][1:] {
					if canonRow(r, curKind, markKinds) != first || fmt.Sprint(r.path) != fmt.Sprint(groups[k][0].path) || fmt.Sprint(markIDs(r)) != fmt.Sprint(markIDs(groups[k][0])) {
						res.Undefined = "distinct keeps 'the first' of rows that differ; which one is first is not specified"
						return res
					}
				}
				next = append(next, groups[k][0])
			}
		case "count":
			next = []row{{count: uint32(len(rows))}}
			curKind = KCount
		default:
			panic("refsem: cannot evaluate " + s.Op)
		}
		rows = next
	}
	for _, r := range rows {
		res.Rows = append(res.Rows, canonRow(r, curKind, markKinds))
	}
	sort.Strings(res.Rows)
	if trunc != nil {
		n := len(rows)
		res.Trunc = true
		switch trunc.Op {
		case "limit":
			res.TruncCount = min(trunc.A, n)
		case "skip":
			res.TruncCount = max(0, n-trunc.A)
		case "range":
			a, b := trunc.A, trunc.B
			if b == -1 {
				res.TruncCount = max(0, n-a)
			} else {
				res.TruncCount = max(0, min(b, n)-a)
			}
		}
	}
	return res
}

func markIDs(r row) []string {
	var o []string
	for k, v := range r.marks {
		id := "<nil>"
		if v != nil {
			id = v.ID
		}
		o = append(o, k+"="+id)
	}
	sort.Strings(o)
	return o
}

func min(a, b int) int {
	if a < b {
		return a
	}
	return b
}
func max(a, b int) int {
	if a > b {
		return a
	}
	return b
}

func elemJSON(e *gmodel.Elem, edge bool) map[string]any {
	o := map[string]any{}
	if e == nil {
		return o
	}
	if e.ID != "" {
		o["gid"] = e.ID
	}
	if e.Label != "" {
		o["label"] = e.Label
	}
	if edge {
		if e.From != "" {
			o["from"] = e.From
		}
		if e.To != "" {
			o["to"] = e.To
		}
	}
	if len(e.Data) > 0 {
		o["data"] = e.Data
	}
	return o
}

func canonRow(r row, k Kind, markKinds map[string]Kind) string {
	var v any
	switch k {
	case KVertex:
		v = map[string]any{"vertex": elemJSON(r.cur, false)}
	case KEdge:
		v = map[string]any{"edge": elemJSON(r.cur, true)}
	case KCount:
		v = map[string]any{"count": float64(r.count)}
	case KSelection:
		sel := map[string]any{}
		for m, e := range r.sel {
			if markKinds[m] == KEdge {
				sel[m] = map[string]any{"edge": elemJSON(e, true)}
			} else {
				sel[m] = map[string]any{"vertex": elemJSON(e, false)}
			}
		}
		v = map[string]any{"selections": map[string]any{"selections": sel}}
	case KRender:
		v = map[string]any{"render": r.render}
	case KPath:
		var l []any
		for _, p := range r.path {
			if p.Edge {
				l = append(l, map[string]any{"edge": p.ID})
			} else {
				l = append(l, map[string]any{"vertex": p.ID})
			}
		}
		if l == nil {
			l = []any{}
		}
		v = map[string]any{"path": l}
	}
	return Canon(v)
}

// Canon renders a JSON value canonically after dropping empty "data" objects
// and zero-valued count fields (protojson omits them).
func Canon(v any) string {
	b, _ := json.Marshal(normalise(v))
	return string(b)
}

func normalise(v any) any {
	switch x := v.(type) {
	case map[string]any:
		o := map[string]any{}
		for k, val := range x {
			n := normalise(val)
			if k == "data" {
				if m, ok := n.(map[string]any); ok && len(m) == 0 {
					continue
				}
			}
			if k == "count" {
				if f, ok := n.(float64); ok && f == 0 {
					continue
				}
			}
			o[k] = n
		}
		return o
	case []any:
		o := make([]any, len(x))
		for i := range x {
			o[i] = normalise(x[i])
		}
		return o
	}
	return v
}

// CanonJSON normalises an already rendered JSON row the same way.
func CanonJSON(s string) string {
	var v any
	if json.Unmarshal([]byte(s), &v) != nil {
		return s
	}
	return Canon(v)
}
