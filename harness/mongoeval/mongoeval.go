// Package mongoeval is a ~150 line interpreter of the $match subset that
// grip's MongoDB compiler emits, with MongoDB's standard (type-bracketed)
// comparison semantics, for scalar field values.
package mongoeval

import (
	"fmt"
	"reflect"
	"strings"

	"go.mongodb.org/mongo-driver/bson"
)

// Error is returned for filters the server would refuse.
type Error struct{ Msg string }

func (e Error) Error() string { return e.Msg }

// lookup follows a dotted path; ok=false means the field is missing.
func lookup(doc map[string]any, path string) (any, bool) {
	var cur any = doc
	for _, p := range strings.Split(path, ".") {
		m, ok := cur.(map[string]any)
		if !ok {
			return nil, false
		}
		cur, ok = m[p]
		if !ok {
			return nil, false
		}
	}
	return cur, true
}

func bracket(v any) string {
	switch v.(type) {
	case nil:
		return "null"
	case float64, float32, int, int32, int64:
		return "number"
	case string:
		return "string"
	case bool:
		return "bool"
	case []any, bson.A:
		return "array"
	case map[string]any, bson.M:
		return "object"
	}
	return "other"
}

func num(v any) float64 {
	switch x := v.(type) {
	case float64:
		return x
	case float32:
		return float64(x)
	case int:
		return float64(x)
	case int32:
		return float64(x)
	case int64:
		return float64(x)
	}
	return 0
}

// cmp compares two values of the same bracket.
func cmp(a, b any) int {
	switch bracket(a) {
	case "number":
		x, y := num(a), num(b)
		switch {
		case x < y:
			return -1
		case x > y:
			return 1
		}
		return 0
	case "string":
		return strings.Compare(a.(string), b.(string))
	case "bool":
		x, y := a.(bool), b.(bool)
		switch {
		case !x && y:
			return -1
		case x && !y:
			return 1
		}
		return 0
	}
	return 0
}

func eq(fv any, present bool, v any) bool {
	if v == nil {
		return !present || fv == nil
	}
	if !present {
		return false
	}
	if bracket(fv) != bracket(v) {
		return false
	}
	switch bracket(v) {
	case "number", "string", "bool":
		return cmp(fv, v) == 0
	}
	return reflect.DeepEqual(fv, v)
}

func asList(v any) ([]any, bool) {
	switch x := v.(type) {
	case []any:
		return x, true
	case bson.A:
		return []any(x), true
	}
	return nil, false
}

// opExpr evaluates {$op: arg, ...} against one (scalar) field value.
func opExpr(fv any, present bool, e map[string]any) (bool, error) {
	res := true
	for op, arg := range e {
		var r bool
		switch op {
		case "$eq":
			r = eq(fv, present, arg)
		case "$ne":
			r = !eq(fv, present, arg)
		case "$gt", "$gte", "$lt", "$lte":
			if arg == nil {
				// null only equals null/missing
				r = (op == "$gte" || op == "$lte") && (!present || fv == nil)
				break
			}
			if !present || bracket(fv) != bracket(arg) {
				r = false
				break
			}
			if b := bracket(arg); b == "array" || b == "object" {
				r = false
				break
			}
			c := cmp(fv, arg)
			switch op {
			case "$gt":
				r = c > 0
			case "$gte":
				r = c >= 0
			case "$lt":
				r = c < 0
			case "$lte":
				r = c <= 0
			}
		case "$in":
			l, ok := asList(arg)
			if !ok {
				return false, Error{"$in needs an array"}
			}
			for _, x := range l {
				if eq(fv, present, x) {
					r = true
				}
			}
		case "$not":
			sub, ok := toMap(arg)
			if !ok {
				return false, Error{"$not needs an operator expression"}
			}
			s, err := opExpr(fv, present, sub)
			if err != nil {
				return false, err
			}
			r = !s
		default:
			return false, Error{"unsupported operator " + op}
		}
		res = res && r
	}
	return res, nil
}

func toMap(v any) (map[string]any, bool) {
	switch x := v.(type) {
	case map[string]any:
		return x, true
	case bson.M:
		return map[string]any(x), true
	}
	return nil, false
}

// Match evaluates a $match filter document on doc.
func Match(filter map[string]any, doc map[string]any) (bool, error) {
	res := true
	for k, v := range filter {
		var r bool
		switch k {
		case "$and", "$or":
			var subs []map[string]any
			switch l := v.(type) {
			case []bson.M:
				for _, s := range l {
					subs = append(subs, map[string]any(s))
				}
			case []any:
				for _, s := range l {
					m, ok := toMap(s)
					if !ok {
						return false, Error{k + " needs an array of documents"}
					}
					subs = append(subs, m)
				}
			default:
				return false, Error{fmt.Sprintf("%s needs an array, got %T", k, v)}
			}
			if len(subs) == 0 {
				return false, Error{k + " must be a nonempty array"}
			}
			r = k == "$and"
			for _, s := range subs {
				m, err := Match(s, doc)
				if err != nil {
					return false, err
				}
				if k == "$and" {
					r = r && m
				} else {
					r = r || m
				}
			}
		default:
			if strings.HasPrefix(k, "$") {
				return false, Error{"unsupported top-level operator " + k}
			}
			fv, present := lookup(doc, k)
			e, ok := toMap(v)
			if !ok {
				r = eq(fv, present, v)
			} else {
				var err error
				r, err = opExpr(fv, present, e)
				if err != nil {
					return false, err
				}
			}
		}
		res = res && r
	}
	return res, nil
}
