package checks

// C09: secondary-index answers equal a scan of the live documents.
//
// Explicit-state BFS (engine histmc) over histories of field registration /
// removal and document insertion / replacement / removal on the real
// kvindex.KVIndex over memkv; after every step every index query is compared
// with a brute-force scan of the model's live documents.

import (
	"context"
	"fmt"
	"math"
	"sort"
	"strings"
	"time"

	"github.com/bmeg/grip/kvindex"

	"verif/harness/histmc"
	"verif/harness/memkv"
	"verif/harness/vf"
)

type ixOp struct {
	Kind  string // AddField RemoveField AddDoc RemoveDoc
	Field string
	Doc   string
	X     any // value of field x (nil = missing)
	YZ    any // value of field y.z
}

func (o ixOp) String() string {
	switch o.Kind {
	case "AddField", "RemoveField":
		return fmt.Sprintf("%s(%s)", o.Kind, o.Field)
	case "RemoveDoc":
		return fmt.Sprintf("RemoveDoc(%s)", o.Doc)
	}
	return fmt.Sprintf("AddDoc(%s,{x:%v,y.z:%v})", o.Doc, o.X, o.YZ)
}

type ixDoc struct{ X, YZ any }

// yScalar as the YZ of a document: the document carries a bare scalar at y, the parent of the indexed
// path y.z - there is no value at y.z, so nothing of it may be indexed under that field.
type yScalar string

func (y yScalar) String() string { return "<y is the scalar " + string(y) + ">" }

func (d ixDoc) get(f string) any {
	if f == "x" {
		return d.X
	}
	if _, ok := d.YZ.(yScalar); ok {
		return nil
	}
	return d.YZ
}

// ixModel: the specification view (live documents, registered fields) and the
// "indexed at insertion time" view used to keep exploring past the known
// no-reindex deviation.
type ixModel struct {
	Fields  map[string]bool
	Docs    map[string]ixDoc
	Indexed map[string]map[string]any // field -> doc -> value as indexed
	Orphan  map[string]bool           // docs whose record still lists an entry of a field removed since
}

func (m ixModel) clone() ixModel {
	n := ixModel{Fields: map[string]bool{}, Docs: map[string]ixDoc{}, Indexed: map[string]map[string]any{}, Orphan: map[string]bool{}}
	for k, v := range m.Orphan {
		n.Orphan[k] = v
	}
	for k, v := range m.Fields {
		n.Fields[k] = v
	}
	for k, v := range m.Docs {
		n.Docs[k] = v
	}
	for f, dm := range m.Indexed {
		n.Indexed[f] = map[string]any{}
		for d, v := range dm {
			n.Indexed[f][d] = v
		}
	}
	return n
}

func (m ixModel) key() string {
	var p []string
	for f := range m.Fields {
		p = append(p, "F:"+f)
	}
	for d, v := range m.Docs {
		p = append(p, fmt.Sprintf("D:%s=%v/%v", d, v.X, v.YZ))
	}
	for f, dm := range m.Indexed {
		for d, v := range dm {
			p = append(p, fmt.Sprintf("I:%s:%s=%v", f, d, v))
		}
	}
	for d := range m.Orphan {
		p = append(p, "O:"+d)
	}
	sort.Strings(p)
	return strings.Join(p, ";")
}

func (m ixModel) apply(op ixOp) (ixModel, string) {
	n := m.clone()
	switch op.Kind {
	case "AddField":
		cls := "AddField:new"
		if m.Fields[op.Field] {
			cls = "AddField:existing"
		} else if len(m.Docs) > 0 {
			cls = "AddField:new-with-live-docs"
		}
		n.Fields[op.Field] = true
		if n.Indexed[op.Field] == nil {
			n.Indexed[op.Field] = map[string]any{}
		}
		return n, cls
	case "RemoveField":
		cls := "RemoveField:absent"
		if m.Fields[op.Field] {
			cls = "RemoveField:present"
		}
		for d := range m.Indexed[op.Field] {
			n.Orphan[d] = true
		}
		delete(n.Fields, op.Field)
		delete(n.Indexed, op.Field)
		return n, cls
	case "AddDoc":
		cls := "AddDoc:new"
		if old, ok := m.Docs[op.Doc]; ok {
			cls = "AddDoc:replace-changed"
			if old == (ixDoc{op.X, op.YZ}) {
				cls = "AddDoc:replace-same"
			}
		}
		n.Docs[op.Doc] = ixDoc{op.X, op.YZ}
		delete(n.Orphan, op.Doc)
		for f := range n.Fields {
			v := ixDoc{op.X, op.YZ}.get(f)
			if v != nil {
				n.Indexed[f][op.Doc] = v
			} else {
				delete(n.Indexed[f], op.Doc)
			}
		}
		// fields not registered now keep no entry for this doc (a replaced doc loses none there: nothing was indexed)
		return n, cls
	case "RemoveDoc":
		cls := "RemoveDoc:absent"
		if _, ok := m.Docs[op.Doc]; ok {
			cls = "RemoveDoc:present"
			if m.Orphan[op.Doc] {
				cls = "RemoveDoc:present-after-removal-of-a-field-it-was-indexed-under"
			}
		}
		delete(n.Docs, op.Doc)
		delete(n.Orphan, op.Doc)
		for f := range n.Indexed {
			delete(n.Indexed[f], op.Doc)
		}
		return n, cls
	}
	panic("bad op")
}

var ixTerms = map[string][]any{
	"x":   {"a", "b", -1.5, 0.0, 2.0, 1e9},
	"y.z": {"a", 3.0},
}
var ixRangeGrid = []float64{-2, -1, 1, 2.5, 2e9}

type ixObs map[string]map[string]string

func (o ixObs) set(c, i, v string) {
	if o[c] == nil {
		o[c] = map[string]string{}
	}
	o[c][i] = v
}

var ixUniverseFields = []string{"x", "y.z"}

var ixComponents = []string{"unregistered", "fields", "match", "terms", "counts", "string-counts", "min", "max", "range", "numbers"}

func fmtTerm(v any) string {
	switch x := v.(type) {
	case string:
		return fmt.Sprintf("%q", x)
	case float64:
		return fmt.Sprintf("%g", x)
	}
	return fmt.Sprintf("?%v", v)
}

// scan computes every query by brute force over view: field -> doc -> value.
func ixScan(fields map[string]bool, view func(f string) map[string]any) ixObs {
	o := ixObs{}
	var fl []string
	for f := range fields {
		fl = append(fl, f)
	}
	sort.Strings(fl)
	o.set("fields", "list", strings.Join(fl, ","))
	// a field that is not registered (never was, or was removed) has no index: nothing matches, no terms
	for _, f := range ixUniverseFields {
		if !fields[f] {
			for _, t := range ixTerms[f] {
				o.set("unregistered", f+"="+fmtTerm(t), "")
			}
			o.set("unregistered", f+":terms", "")
		}
	}
	for _, f := range fl {
		vals := view(f)
		for _, t := range ixTerms[f] {
			var ids []string
			for d, v := range vals {
				if v == t {
					ids = append(ids, d)
				}
			}
			sort.Strings(ids)
			o.set("match", f+"="+fmtTerm(t), strings.Join(ids, ","))
		}
		cnt := map[string]int{}
		scnt := map[string]int{}
		var nums []float64
		for _, v := range vals {
			cnt[fmtTerm(v)]++
			if _, ok := v.(string); ok {
				scnt[fmtTerm(v)]++
			}
			if x, ok := v.(float64); ok {
				nums = append(nums, x)
			}
		}
		o.set("terms", f, mapKeys(cnt))
		o.set("counts", f, mapCounts(cnt))
		o.set("string-counts", f, mapCounts(scnt))
		sort.Float64s(nums)
		if len(nums) > 0 {
			o.set("min", f, fmt.Sprintf("%g", nums[0]))
			o.set("max", f, fmt.Sprintf("%g", nums[len(nums)-1]))
		}
		var ns []string
		for _, x := range nums {
			ns = append(ns, fmt.Sprintf("%g", x))
		}
		o.set("numbers", f, strings.Join(ns, ","))
		for i, lo := range ixRangeGrid {
			for _, hi := range ixRangeGrid[i:] {
				rc := map[string]int{}
				for _, x := range nums {
					if x >= lo && x < hi {
						rc[fmt.Sprintf("%g", x)]++
					}
				}
				o.set("range", fmt.Sprintf("%s[%g,%g)", f, lo, hi), mapCounts(rc))
			}
		}
	}
	return o
}

func mapKeys(m map[string]int) string {
	var k []string
	for x := range m {
		k = append(k, x)
	}
	sort.Strings(k)
	return strings.Join(k, ",")
}
func mapCounts(m map[string]int) string {
	var k []string
	for x, n := range m {
		k = append(k, fmt.Sprintf("%s:%d", x, n))
	}
	sort.Strings(k)
	return strings.Join(k, ",")
}

// observe runs every query on the real index; each call has a generous
// deadline - a hang is reported as such (never as a wrong answer).
func ixObserve(idx *kvindex.KVIndex, fields map[string]bool) (o ixObs, problem string) {
	o = ixObs{}
	type res struct {
		o   ixObs
		pan string
	}
	done := make(chan res, 1)
	go func() {
		r := res{o: ixObs{}}
		defer func() {
			if x := recover(); x != nil {
				r.pan = fmt.Sprint(x)
			}
			done <- r
		}()
		fl := idx.ListFields()
		sort.Strings(fl)
		r.o.set("fields", "list", strings.Join(fl, ","))
		var reg []string
		for f := range fields {
			reg = append(reg, f)
		}
		sort.Strings(reg)
		ctx := context.Background()
		for _, f := range ixUniverseFields {
			if fields[f] {
				continue
			}
			for _, t := range ixTerms[f] {
				var ids []string
				for d := range idx.GetTermMatch(ctx, f, t, 0) {
					ids = append(ids, d)
				}
				sort.Strings(ids)
				r.o.set("unregistered", f+"="+fmtTerm(t), strings.Join(ids, ","))
			}
			var tk []string
			for t := range idx.FieldTerms(f) {
				tk = append(tk, fmtTerm(t))
			}
			sort.Strings(tk)
			r.o.set("unregistered", f+":terms", strings.Join(tk, ","))
		}
		for _, f := range reg {
			for _, t := range ixTerms[f] {
				var ids []string
				for d := range idx.GetTermMatch(ctx, f, t, 0) {
					ids = append(ids, d)
				}
				sort.Strings(ids)
				r.o.set("match", f+"="+fmtTerm(t), strings.Join(ids, ","))
			}
			tm := map[string]int{}
			for t := range idx.FieldTerms(f) {
				tm[fmtTerm(t)]++
			}
			// a term listed twice shows up as a count of 2 in the key list rendering
			var tk []string
			for k, n := range tm {
				for i := 0; i < n; i++ {
					tk = append(tk, k)
				}
			}
			sort.Strings(tk)
			r.o.set("terms", f, strings.Join(tk, ","))
			var cs, ss []string
			for c := range idx.FieldTermCounts(f) {
				if c.String != "" {
					cs = append(cs, fmt.Sprintf("%q:%d", c.String, c.Count))
				} else {
					cs = append(cs, fmt.Sprintf("%g:%d", c.Number, c.Count))
				}
			}
			for c := range idx.FieldStringTermCounts(f) {
				ss = append(ss, fmt.Sprintf("%q:%d", c.String, c.Count))
			}
			sort.Strings(cs)
			sort.Strings(ss)
			r.o.set("counts", f, strings.Join(cs, ","))
			r.o.set("string-counts", f, strings.Join(ss, ","))
			r.o.set("min", f, fmt.Sprintf("%g", idx.FieldTermNumberMin(f)))
			r.o.set("max", f, fmt.Sprintf("%g", idx.FieldTermNumberMax(f)))
			var ns []string
			for x := range idx.FieldNumbers(f) {
				ns = append(ns, fmt.Sprintf("%g", x))
			}
			r.o.set("numbers", f, strings.Join(ns, ","))
			for i, lo := range ixRangeGrid {
				for _, hi := range ixRangeGrid[i:] {
					var rc []string
					for c := range idx.FieldTermNumberRange(f, lo, hi) {
						rc = append(rc, fmt.Sprintf("%g:%d", c.Number, c.Count))
					}
					sort.Strings(rc)
					r.o.set("range", fmt.Sprintf("%s[%g,%g)", f, lo, hi), strings.Join(rc, ","))
				}
			}
		}
	}()
	select {
	case r := <-done:
		if r.pan != "" {
			return r.o, "panic: " + r.pan
		}
		return r.o, ""
	case <-time.After(20 * time.Second):
		return o, "hang"
	}
}

type ixState struct {
	hist     []ixOp
	model    ixModel
	taint    map[string]bool
	diverged bool // spec view != indexed-at-insertion view (known deviation taken)
}

func ixHist(h []ixOp) string {
	var s []string
	for _, o := range h {
		s = append(s, o.String())
	}
	return strings.Join(s, "; ")
}

func ixApply(idx *kvindex.KVIndex, op ixOp) (err error, pan string) {
	defer func() {
		if r := recover(); r != nil {
			pan = fmt.Sprint(r)
		}
	}()
	switch op.Kind {
	case "AddField":
		return idx.AddField(op.Field), ""
	case "RemoveField":
		return idx.RemoveField(op.Field), ""
	case "RemoveDoc":
		return idx.RemoveDoc(op.Doc), ""
	}
	doc := map[string]interface{}{}
	if op.X != nil {
		doc["x"] = op.X
	}
	if ys, ok := op.YZ.(yScalar); ok {
		doc["y"] = string(ys)
	} else if op.YZ != nil {
		doc["y"] = map[string]interface{}{"z": op.YZ}
	}
	return idx.AddDoc(op.Doc, doc), ""
}

func ixDiff(want, got ixObs, taint map[string]bool) [][4]string {
	var out [][4]string
	for _, c := range ixComponents {
		if taint[c] {
			continue
		}
		var items []string
		for k := range want[c] {
			items = append(items, k)
		}
		sort.Strings(items)
		for _, it := range items {
			g, ok := got[c][it]
			if !ok {
				g = "<unobserved>"
			}
			if want[c][it] != g {
				out = append(out, [4]string{c, it, want[c][it], g})
			}
		}
	}
	return out
}

func csvDirection(want, got string) string {
	return listDirection("["+strings.ReplaceAll(want, ",", " ")+"]", "["+strings.ReplaceAll(got, ",", " ")+"]")
}

// C09 runs the check.
func C09(tier string) int {
	run := vf.NewRun("C09", tier, "model_checking")
	thorough := tier == "thorough"
	depth := 5
	budget := 120 * time.Second
	if thorough {
		depth = 6
		budget = 25 * time.Minute
	}
	var ops []ixOp
	for _, f := range []string{"x", "y.z"} {
		ops = append(ops, ixOp{Kind: "AddField", Field: f})
	}
	xs := []any{nil, "a", "ab", -1.5, 0.0, 2.0, 1e9} // the two string terms are prefix-related on purpose
	yzs := []any{nil, "a", 3.0, yScalar("a")}        // the last one: a scalar where the parent object of the indexed path should be
	for _, d := range []string{"d1", "d11"} {        // so are the document ids
		for _, x := range xs {
			for _, yz := range yzs {
				if !thorough && yz != nil && !(x == nil || x == "a" || x == 2.0) {
					continue
				}
				ops = append(ops, ixOp{Kind: "AddDoc", Doc: d, X: x, YZ: yz})
			}
		}
	}
	for _, d := range []string{"d1", "d11", "zz"} {
		ops = append(ops, ixOp{Kind: "RemoveDoc", Doc: d})
	}
	for _, f := range []string{"x", "y.z"} {
		ops = append(ops, ixOp{Kind: "RemoveField", Field: f})
	}
	samples := []string{}
	nontriv := map[string]bool{}
	var mu = make(chan struct{}, 1)
	init := ixState{model: ixModel{Fields: map[string]bool{}, Docs: map[string]ixDoc{}, Indexed: map[string]map[string]any{}, Orphan: map[string]bool{}}, taint: map[string]bool{}}
	st := histmc.BFS(init, "init", ops, depth, time.Now().Add(budget), func(s ixState, op ixOp) histmc.Succ[ixState] {
		kv := memkv.New()
		idx := kvindex.NewIndex(kv)
		for _, o := range s.hist {
			ixApply(idx, o)
		}
		hist := append(append([]ixOp{}, s.hist...), op)
		rep := map[string]any{"history": ixHist(hist)}
		_, pan := ixApply(idx, op)
		next, cls := s.model.apply(op)
		if pan != "" {
			run.Report(vf.Violation{Sig: cls + "|panic", Detail: fmt.Sprintf("history [%s] panicked: %s", ixHist(hist), pan), Replay: rep})
			return histmc.Succ[ixState]{}
		}
		obs, prob := ixObserve(idx, next.Fields)
		if prob != "" {
			run.Report(vf.Violation{Sig: cls + "|query-" + strings.SplitN(prob, ":", 2)[0], Detail: fmt.Sprintf("after history [%s] the query battery: %s", ixHist(hist), prob), Replay: rep})
			return histmc.Succ[ixState]{}
		}
		spec := ixScan(next.Fields, func(f string) map[string]any {
			m := map[string]any{}
			for d, doc := range next.Docs {
				if v := doc.get(f); v != nil {
					m[d] = v
				}
			}
			return m
		})
		dev := ixScan(next.Fields, func(f string) map[string]any { return next.Indexed[f] })
		// once spec view and "indexed at insertion time" view differ, the latter is the
		// oracle (the deviation is reported once, at the operation that makes them differ)
		diverged := fmt.Sprint(spec) != fmt.Sprint(dev)
		taint := map[string]bool{}
		for k := range s.taint {
			taint[k] = true
		}
		diffs := ixDiff(spec, obs, s.taint)
		if diverged {
			dDev := ixDiff(dev, obs, s.taint)
			if len(diffs) > 0 && len(dDev) < len(diffs) {
				if !s.diverged {
					run.Report(vf.Violation{Sig: cls + "|deviation|documents-inserted-before-field-registration-are-not-indexed",
						Detail: fmt.Sprintf("history [%s]: %s %s: scan of live documents gives %s, index gives %s", ixHist(hist), diffs[0][0], diffs[0][1], diffs[0][2], diffs[0][3]), Replay: rep})
				}
				diffs = dDev
			} else if s.diverged {
				diffs = dDev
			}
		}
		seen := map[string]bool{}
		for _, d := range diffs {
			if seen[d[0]] {
				continue
			}
			seen[d[0]] = true
			sig := fmt.Sprintf("%s|%s|%s", cls, d[0], csvDirection(d[2], d[3]))
			run.Report(vf.Violation{Sig: sig, Detail: fmt.Sprintf("history [%s]: %s %s: scan of live documents gives %s, index gives %s", ixHist(hist), d[0], d[1], d[2], d[3]), Replay: rep})
			taint[d[0]] = true
			if f := run.Known(sig); f != nil {
				for _, t := range f.Taints {
					taint[t] = true
				}
			}
		}
		if len(taint) >= len(ixComponents)-1 {
			return histmc.Succ[ixState]{}
		}
		mu <- struct{}{}
		if len(next.Docs) > 0 && len(next.Fields) > 0 {
			nontriv[next.key()] = true
		}
		if len(samples) < 5 && len(hist) >= 3 && len(nontriv)%41 == 0 {
			samples = append(samples, ixHist(hist))
		}
		<-mu
		key := next.key() + "#" + kv.DumpString() + "#" + strings.Join(histmc.SortedKeys(taint), ",")
		return histmc.Succ[ixState]{State: ixState{hist: hist, model: next, taint: taint, diverged: diverged}, Key: key}
	})
	run.Coverage["states"] = st.States
	run.Coverage["transitions"] = st.Transitions
	run.Coverage["traces_validated_against_impl"] = st.Transitions
	run.Coverage["depth_requested"] = depth
	run.Coverage["depth_completed"] = st.DepthDone
	run.Coverage["new_states_per_depth"] = st.PerDepth
	run.Coverage["frontier_unexpanded"] = st.FrontierLeft
	run.Coverage["operations_in_alphabet"] = len(ops)
	run.Coverage["exhaustive"] = st.Exhaustive && st.DepthDone >= depth
	run.Coverage["deadline_hit"] = st.DeadlineHit
	run.Coverage["evaluations"] = st.Transitions
	run.Coverage["distinct_nontrivial"] = len(nontriv)
	run.Coverage["rule"] = "BFS over all histories of the index alphabet up to the depth on a fresh KVIndex over memkv; distinct by (model, raw key dump, taints); non-trivial = at least one live document and one registered field"
	if len(samples) == 0 {
		samples = []string{"AddField(x); AddDoc(d1,{x:2,y.z:<nil>}); RemoveDoc(d1)"}
	}
	run.Coverage["samples"] = samples
	run.Assume = []string{
		"oracle = brute-force scan of the live documents for every registered field; a field that is not registered must match nothing and list no terms (its other queries are not observed)",
		"range queries are probed only at bounds that are not themselves term values (the inclusive/exclusive convention is not documented)",
		"minimum/maximum are compared only when the field has at least one numeric value",
		"universe: fields x, y.z; documents d1,d11 (one id a prefix of the other); terms a,ab (prefix-related),-1.5,0,2,1e9 / a,3",
	}
	_ = math.Inf
	return run.Finish()
}
