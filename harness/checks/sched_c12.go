//go:build vsched

package checks

// C12: mark/jump loops are exact and terminate under every schedule.
//
// Harness (narrowest seam): the processors are built by the real
// core.NewCompiler(...).Compile and started by the real pipeline.Start, fed
// through its input parameter with N pre-built travelers; a collector goroutine
// is the client. All interleavings of feeder, mark, body steps, jump, the two
// queue goroutines and the collector are enumerated.

import (
	"context"
	"fmt"
	"sort"
	"time"

	"github.com/bmeg/grip/engine/core"
	"github.com/bmeg/grip/engine/pipeline"
	"github.com/bmeg/grip/gdbi"
	"github.com/bmeg/grip/gripql"
	vs "github.com/bmeg/grip/verifsched"

	"github.com/bmeg/grip/kvgraph"
	"google.golang.org/protobuf/types/known/structpb"

	"verif/harness/memkv"
	"verif/harness/qrun"
)

func init() { Registry["C12"] = C12 }

func markS(n string) *gripql.GraphStatement {
	return &gripql.GraphStatement{Statement: &gripql.GraphStatement_Mark{Mark: n}}
}
func jumpS(mark string, cond *gripql.HasExpression, emit bool) *gripql.GraphStatement {
	return &gripql.GraphStatement{Statement: &gripql.GraphStatement_Jump{Jump: &gripql.Jump{Mark: mark, Expression: cond, Emit: emit}}}
}
func incS(key string) *gripql.GraphStatement {
	return &gripql.GraphStatement{Statement: &gripql.GraphStatement_Increment{Increment: &gripql.Increment{Key: key, Value: 1}}}
}
func hasS(e *gripql.HasExpression) *gripql.GraphStatement {
	return &gripql.GraphStatement{Statement: &gripql.GraphStatement_Has{Has: e}}
}

// loopBody runs stmts over n travelers v0..v(n-1) (each with data {c: start}) and records "id/c" per emitted row.
func loopBody(stmts []*gripql.GraphStatement, n int, buf int) func() {
	return loopBodyKey(stmts, n, buf, false)
}

// loopBodyKey: with nested, the counter lives one level down ({st: {c: 0}}, key st.c): a traveler copy that
// shares nested property maps with its original shows up as a row carrying another pass's count.
func loopBodyKey(stmts []*gripql.GraphStatement, n int, buf int, nested bool) func() {
	return func() {
		pipe, err := core.NewCompiler(nil).Compile(stmts, &gdbi.CompileOptions{PipelineExtension: gdbi.VertexData, ExtensionMarkTypes: map[string]gdbi.DataType{}})
		if err != nil {
			vs.Obs("compile-error:" + err.Error())
			return
		}
		in := vs.NewChan(make(chan gdbi.Traveler, buf))
		vs.Go(func() {
			for i := 0; i < n; i++ {
				data := map[string]interface{}{"c": 0.0, "odd": float64(i % 2)}
				if nested {
					data = map[string]interface{}{"st": map[string]interface{}{"c": 0.0}, "odd": float64(i % 2)}
				}
				t := (&gdbi.BaseTraveler{}).AddCurrent(&gdbi.DataElement{ID: fmt.Sprintf("v%d", i), Label: "L", Data: data, Loaded: true})
				vs.PreSend(in, "harness:feed")
				in <- t
			}
			vs.PreClose(in, "harness:feed-close")
			close(in)
		})
		out := pipeline.Start(context.Background(), pipe, qrun.MemManager{}, buf, in, func() {})
		vs.PreRecv(out, "harness:collect")
		for t := range out {
			if !t.IsSignal() {
				c := t.GetCurrent()
				if nested {
					st, _ := c.Data["st"].(map[string]interface{})
					vs.Obs(fmt.Sprintf("%s/%v", c.ID, st["c"]))
				} else {
					vs.Obs(fmt.Sprintf("%s/%v", c.ID, c.Data["c"]))
				}
			}
			vs.PreRecv(out, "harness:collect")
		}
	}
}

// fanGraph: hub h -> leaves l0.. -> tails t0.. (one tail per leaf), on kvgraph over memkv.
func fanGraph(f int) gdbi.GraphInterface {
	db := kvgraph.NewKVGraph(memkv.New())
	db.AddGraph("g")
	gi, _ := db.Graph("g")
	vsx := []*gdbi.Vertex{{ID: "h", Label: "H", Data: map[string]any{}, Loaded: true}}
	var es []*gdbi.Edge
	for i := 0; i < f; i++ {
		l, t := fmt.Sprintf("l%d", i), fmt.Sprintf("t%d", i)
		vsx = append(vsx, &gdbi.Vertex{ID: l, Label: "L", Data: map[string]any{}, Loaded: true}, &gdbi.Vertex{ID: t, Label: "T", Data: map[string]any{}, Loaded: true})
		es = append(es, &gdbi.Edge{ID: "e" + l, From: "h", To: l, Label: "x", Loaded: true}, &gdbi.Edge{ID: "e" + t, From: l, To: t, Label: "x", Loaded: true})
	}
	gi.AddVertex(vsx)
	gi.AddEdge(es)
	return gi
}

// loopBodyDB runs stmts through the graph's own compiler and records the id of every emitted row.
func loopBodyDB(gi gdbi.GraphInterface, stmts []*gripql.GraphStatement, buf int) func() {
	return func() {
		pipe, err := gi.Compiler().Compile(stmts, nil)
		if err != nil {
			vs.Obs("compile-error:" + err.Error())
			return
		}
		ctx, cancel := context.WithCancel(context.Background())
		defer cancel()
		out := pipeline.Start(ctx, pipe, qrun.MemManager{}, buf, nil, cancel)
		vs.PreRecv(out, "harness:collect")
		for t := range out {
			if !t.IsSignal() {
				vs.Obs(t.GetCurrent().ID)
			}
			vs.PreRecv(out, "harness:collect")
		}
	}
}

// freeRun executes a harness body outside the scheduler and returns its observations.
func freeRun(body func()) []string {
	r := vs.RunFree(body, 60*time.Second)
	return r
}

func c12Scenarios(tier string) []schedScenario {
	thorough := tier == "thorough"
	var out []schedScenario
	add := func(name, class string, stmts []*gripql.GraphStatement, n int, want []string, bound int, budget time.Duration) {
		sort.Strings(want)
		out = append(out, schedScenario{Name: name, Class: class, Want: want, Bound: bound, Budget: budget, Body: loopBody(stmts, n, 1)})
	}
	maxN := 2
	if thorough {
		maxN = 3
	}
	for _, K := range []int{1, 2, 3} {
		for _, emit := range []bool{true, false} {
			for n := 0; n <= maxN; n++ {
				if K == 3 && (n > 1 || !thorough && !emit) {
					continue
				}
				// P1: mark(a).increment(c).has(lt(c,K)).jump(a,nil,emit)
				stmts := []*gripql.GraphStatement{markS("a"), incS("c"), hasS(gripql.Lt("c", float64(K))), jumpS("a", nil, emit)}
				var want []string
				if emit {
					for i := 0; i < n; i++ {
						for c := 1; c < K; c++ {
							want = append(want, fmt.Sprintf("v%d/%d", i, c))
						}
					}
				}
				bound, budget := -1, 150*time.Second
				if n >= 2 {
					bound = 2 // the full space of N>=2 is beyond the quick budget: largest completed preemption bound is reported
					if thorough {
						bound, budget = 3, 20*time.Minute
					}
				}
				add(fmt.Sprintf("P1 loop/K=%d/emit=%v/N=%d/bound=%d", K, emit, n, bound), "loop", stmts, n, want, bound, budget)
			}
		}
	}
	// P1n: P1 with the counter under a nested key (st.c): every emitted copy must carry the count of its own pass
	for _, cfg := range [][3]int{{3, 1, -1}, {2, 2, 2}} {
		K, n, bound := cfg[0], cfg[1], cfg[2]
		stmts := []*gripql.GraphStatement{markS("a"), incS("st.c"), hasS(gripql.Lt("st.c", float64(K))), jumpS("a", nil, true)}
		var want []string
		for i := 0; i < n; i++ {
			for c := 1; c < K; c++ {
				want = append(want, fmt.Sprintf("v%d/%d", i, c))
			}
		}
		sort.Strings(want)
		out = append(out, schedScenario{Name: fmt.Sprintf("P1n loop, nested counter/K=%d/N=%d/bound=%d", K, n, bound), Class: "loop-nested-counter", Want: want, Bound: bound, Budget: 150 * time.Second, Body: loopBodyKey(stmts, n, 1, true)})
	}
	// P2: two jumps to one mark with different conditions: odd travelers loop via the first jump, even ones via the second
	for n := 0; n <= 2; n++ {
		stmts := []*gripql.GraphStatement{markS("a"), incS("c"), hasS(gripql.Lt("c", 2.0)),
			jumpS("a", gripql.Eq("odd", 1.0), true), jumpS("a", gripql.Eq("odd", 0.0), true)}
		var want []string
		for i := 0; i < n; i++ {
			// one pass (c=1): exactly one of the two jumps sends the traveler back; the copy that the first
			// jump emits is the input of the second, whose copy is the single row of that pass
			want = append(want, fmt.Sprintf("v%d/1", i))
		}
		bound := -1
		if n >= 2 {
			bound = 1
		}
		add(fmt.Sprintf("P2 two jumps to one mark/N=%d/bound=%d", n, bound), "two-jumps", stmts, n, want, bound, 150*time.Second)
	}
	// P2b/P2c: two jumps to one mark with a traveler that needs several passes, so that re-entering the
	// loop late (after the closing signal has already come back from the other jump) is observable:
	// P2b selects the jump by parity (an even traveler always returns through the second jump),
	// P2c by the counter (first pass through the first jump, later passes through the second)
	for _, n := range []int{1, 2} {
		if n == 2 && !thorough {
			continue
		}
		bound, budget := 2, 120*time.Second
		if thorough {
			bound, budget = 3, 20*time.Minute
		}
		stmts := []*gripql.GraphStatement{markS("a"), incS("c"), hasS(gripql.Lt("c", 4.0)),
			jumpS("a", gripql.Eq("odd", 1.0), true), jumpS("a", gripql.Eq("odd", 0.0), true)}
		var want []string
		for i := 0; i < n; i++ {
			for c := 1; c < 4; c++ {
				want = append(want, fmt.Sprintf("v%d/%d", i, c))
			}
		}
		add(fmt.Sprintf("P2b two jumps, three passes/N=%d/bound=%d", n, bound), "two-jumps", stmts, n, want, bound, budget)
		stmts = []*gripql.GraphStatement{markS("a"), incS("c"),
			jumpS("a", gripql.Lt("c", 2.0), true), jumpS("a", gripql.And(gripql.Gte("c", 2.0), gripql.Lt("c", 4.0)), true)}
		want = nil
		for i := 0; i < n; i++ {
			// passes c=1 (first jump), c=2 and c=3 (second jump) return to the mark; every pass also leaves
			// the pipeline through the emitting jumps: c=1 is emitted by the first jump and its copy is not
			// taken by the second (c<2), so it reaches the output; c=2,3 pass the first jump and are emitted
			// by the second; c=4 passes both jumps
			for c := 1; c <= 4; c++ {
				want = append(want, fmt.Sprintf("v%d/%d", i, c))
			}
		}
		add(fmt.Sprintf("P2c two jumps by counter/N=%d/bound=%d", n, bound), "two-jumps", stmts, n, want, bound, budget)
	}
	// P4: more travelers in the cycle at once than the (scaled) ring of buffers holds: the jump queue is what
	// makes the back edge unbounded, so the loop must still terminate. Channel capacities of the queue are
	// scaled to 2, inter-stage buffers are 1; the space is far beyond exhaustive reach, so this is a bounded
	// prefix of the non-preemptive schedules (the cap is reported).
	for _, n := range []int{16, 32} {
		if n == 32 && !thorough {
			continue
		}
		stmts := []*gripql.GraphStatement{markS("a"), incS("c"), hasS(gripql.Lt("c", 3.0)), jumpS("a", nil, true)}
		var want []string
		for i := 0; i < n; i++ {
			want = append(want, fmt.Sprintf("v%d/1", i), fmt.Sprintf("v%d/2", i))
		}
		sort.Strings(want)
		maxExec := 600
		if thorough {
			maxExec = 20000
		}
		out = append(out, schedScenario{Name: fmt.Sprintf("P4 crowded loop/K=3/N=%d/scaled-queue/bound=1", n), Class: "crowded-loop", Want: want, Bound: 1, MaxExec: maxExec, Budget: 150 * time.Second,
			CapMap: func(c int, site string) int {
				if c >= 10 {
					return 1
				}
				return c
			}, Body: loopBody(stmts, n, 1)})
	}
	// P5: the documented example loop on a stored graph, with a fan-out INSIDE the cycle (hub -> F leaves ->
	// F tails): one traveler entering the body becomes F travelers that all return to the mark through the
	// jump queue while the expanding step is still emitting. All literal capacities are scaled to 2.
	for _, f := range []int{8, 48, 96} {
		if f == 96 && !thorough {
			continue
		}
		gi := fanGraph(f)
		zero, _ := structpb.NewValue(0)
		stmts := append([]*gripql.GraphStatement{}, gripql.V("h").Statements...)
		stmts = append(stmts,
			&gripql.GraphStatement{Statement: &gripql.GraphStatement_Set{Set: &gripql.Set{Key: "count", Value: zero}}},
			&gripql.GraphStatement{Statement: &gripql.GraphStatement_As{As: "start"}},
			markS("a"),
			&gripql.GraphStatement{Statement: &gripql.GraphStatement_Out{Out: &structpb.ListValue{}}})
		stmts = append(stmts, &gripql.GraphStatement{Statement: &gripql.GraphStatement_Increment{Increment: &gripql.Increment{Key: "$start.count", Value: 1}}},
			hasS(gripql.Lt("$start.count", 3.0)), jumpS("a", nil, true))
		body := loopBodyDB(gi, stmts, 1)
		want := freeRun(body) // the sequential definition: the same body on the free-running code
		maxExec := 400
		if thorough {
			maxExec = 20000
		}
		out = append(out, schedScenario{Name: fmt.Sprintf("P5 documented loop with fan-out %d inside the cycle/scaled-caps/bound=1", f), Class: "fan-out-loop", Want: want, Bound: 1, MaxExec: maxExec, Budget: 150 * time.Second,
			CapMap: scaledCaps, Body: body})
	}
	// P3: forward jump: jump(skip, odd, emit=false).increment(c).mark(skip): odd travelers skip the increment
	for n := 0; n <= 2; n++ {
		stmts := []*gripql.GraphStatement{jumpS("skip", gripql.Eq("odd", 1.0), true), incS("c"), markS("skip")}
		var want []string
		for i := 0; i < n; i++ {
			if i%2 == 1 {
				// the emitted copy goes through the increment (c=1); the jumper reaches the mark directly (c=0)
				want = append(want, fmt.Sprintf("v%d/0", i), fmt.Sprintf("v%d/1", i))
			} else {
				want = append(want, fmt.Sprintf("v%d/1", i))
			}
		}
		add(fmt.Sprintf("P3 one forward jump/N=%d", n), "forward-jump", stmts, n, want, -1, 150*time.Second)
	}
	// P3b: two forward jumps to one mark
	for n := 0; n <= 1; n++ {
		stmts := []*gripql.GraphStatement{jumpS("skip", gripql.Eq("odd", 1.0), false), jumpS("skip", gripql.Eq("odd", 5.0), false), incS("c"), markS("skip")}
		var want []string
		add(fmt.Sprintf("P3b two forward jumps/N=%d", n), "two-forward-jumps", stmts, n, want, -1, 150*time.Second)
	}
	return out
}

// C12 runs the check.
func C12(tier string, args []string) int {
	w := &schedWorker{prop: "C12", scenarios: c12Scenarios(tier)}
	return runSched("C12", tier, args, w,
		"loop programs P1 (mark.increment.has(lt(c,K)).jump, K in 1..3, emit on/off, N travelers), P2 (two jumps to one mark), P3 (forward jump), P3b (two forward jumps) built by the real compiler and started by the real pipeline.Start with inter-stage buffers of 1; all interleavings for N<=1, preemption-bounded for N>=2 (bound in the scenario name); every execution must emit exactly the rows of the iterative definition, close the stream, leave no goroutine parked, not deadlock, not spin forever",
		[]string{
			"expected rows come from the sequential iterative definition (each traveler re-enters at the mark once per pass while the jump condition holds; emit=true forwards one copy per pass)",
			"jump with emit=false drops a non-matching traveler (recorded convention, DESIGN appendix B); the body steps are order preserving (increment, has)",
			"the harness feeds pipeline.Start through its input parameter, so no storage goroutines take part; inter-stage buffers are 1, the queue keeps its real capacities",
		})
}
