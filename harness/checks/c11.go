package checks

// C11: jobs faithfully store, resume and find traversals.
//
// Part A (bounded-exhaustive): a family of traversals covering every result
// type x graph sizes around the serializer's worker-pool (4) and buffer (40)
// boundaries is submitted through the real GripServer.Submit (FSJobStorage on a
// temp dir), awaited, read back with ViewJob and compared with the direct run;
// every split Q = Q1.Q2 of every well-typed program up to a length bound is
// submitted as Q1 and resumed with Q2 through ResumeJob and compared with Q.
// Part B (explicit-state BFS): histories over submit / delete / restart with
// list, search, status and stream observed after every step against a list model.

import (
	"context"
	"fmt"
	"os"
	"path/filepath"
	"sort"
	"strings"
	"sync"
	"sync/atomic"
	"time"

	"github.com/bmeg/grip/gdbi"
	"github.com/bmeg/grip/gripql"
	"github.com/bmeg/grip/jobstorage"
	"github.com/bmeg/grip/kvgraph"
	"github.com/bmeg/grip/server"
	"google.golang.org/grpc/metadata"

	"verif/harness/histmc"
	"verif/harness/memkv"
	"verif/harness/progenum"
	"verif/harness/qrun"
	"verif/harness/refsem"
	"verif/harness/vf"
)

type rowSink struct {
	mu   sync.Mutex
	rows []string
}

func (r *rowSink) Send(q *gripql.QueryResult) error {
	r.mu.Lock()
	r.rows = append(r.rows, refsem.CanonJSON(qrun.CanonRow(q)))
	r.mu.Unlock()
	return nil
}
func (r *rowSink) SetHeader(metadata.MD) error  { return nil }
func (r *rowSink) SendHeader(metadata.MD) error { return nil }
func (r *rowSink) SetTrailer(metadata.MD)       {}
func (r *rowSink) Context() context.Context     { return context.Background() }
func (r *rowSink) SendMsg(m interface{}) error  { return nil }
func (r *rowSink) RecvMsg(m interface{}) error  { return nil }
func (r *rowSink) sorted() []string {
	o := append([]string{}, r.rows...)
	sort.Strings(o)
	return o
}

type statusSink struct {
	rowSink
	ids []string
}

func (s *statusSink) Send(j *gripql.JobStatus) error {
	s.mu.Lock()
	s.ids = append(s.ids, j.Id)
	s.mu.Unlock()
	return nil
}

type jobSink struct {
	rowSink
	ids []string
}

func (s *jobSink) Send(j *gripql.QueryJob) error {
	s.mu.Lock()
	s.ids = append(s.ids, j.Id)
	s.mu.Unlock()
	return nil
}

var c11Dirs int64

type c11Env struct {
	srv *server.GripServer
	db  gdbi.GraphDB
	dir string
	js  *jobstorage.FSResults
}

func c11New(db gdbi.GraphDB) *c11Env {
	dir := filepath.Join(harnessWorkDir(), fmt.Sprintf("jobs-%d", atomic.AddInt64(&c11Dirs, 1)))
	os.MkdirAll(dir, 0o755)
	e := &c11Env{srv: newServer(db), db: db, dir: dir, js: jobstorage.NewFSJobStorage(dir)}
	e.srv.VerifSetJobStorage(e.js)
	return e
}

func (e *c11Env) restart() {
	e.srv = newServer(e.db)
	e.js = jobstorage.NewFSJobStorage(e.dir)
	e.srv.VerifSetJobStorage(e.js)
}

func (e *c11Env) close() { os.RemoveAll(e.dir) }

// submit and wait for completion; returns job id, final status.
func (e *c11Env) submit(graph string, stmts []*gripql.GraphStatement) (string, *gripql.JobStatus, error) {
	j, err := e.srv.Submit(context.Background(), &gripql.GraphQuery{Graph: graph, Query: stmts})
	if err != nil {
		return "", nil, err
	}
	deadline := time.Now().Add(60 * time.Second)
	for {
		st, err := e.srv.GetJob(context.Background(), &gripql.QueryJob{Graph: graph, Id: j.Id})
		if err != nil {
			return j.Id, nil, err
		}
		if st.State == gripql.JobState_COMPLETE || st.State == gripql.JobState_ERROR {
			return j.Id, st, nil
		}
		if time.Now().After(deadline) {
			return j.Id, st, fmt.Errorf("job did not complete within 60s (state %v)", st.State)
		}
		time.Sleep(200 * time.Microsecond)
	}
}

func sizedGraph(n int) (gdbi.GraphDB, gdbi.GraphInterface) {
	db := kvgraph.NewKVGraph(memkv.New())
	db.AddGraph("g")
	gi, _ := db.Graph("g")
	var vs []*gdbi.Vertex
	var es []*gdbi.Edge
	for i := 0; i < n; i++ {
		label := "P"
		if i%3 == 0 {
			label = "Q"
		}
		vs = append(vs, &gdbi.Vertex{ID: fmt.Sprintf("v%03d", i), Label: label, Data: map[string]any{"n": float64(i), "s": fmt.Sprintf("s%d", i%2), "m": map[string]any{"k": []any{float64(i), "x"}}}, Loaded: true})
		if i > 0 {
			es = append(es, &gdbi.Edge{ID: fmt.Sprintf("e%03d", i), From: fmt.Sprintf("v%03d", i-1), To: fmt.Sprintf("v%03d", i), Label: "x", Data: map[string]any{"w": float64(i) / 2}, Loaded: true})
		}
	}
	if len(vs) > 0 {
		gi.AddVertex(vs)
	}
	if len(es) > 0 {
		gi.AddEdge(es)
	}
	return db, gi
}

func c11Family() map[string][]*gripql.GraphStatement {
	term := &gripql.Aggregate{Name: "t", Aggregation: &gripql.Aggregate_Term{Term: &gripql.TermAggregation{Field: "s"}}}
	cnt := &gripql.Aggregate{Name: "c", Aggregation: &gripql.Aggregate_Count{Count: &gripql.CountAggregation{}}}
	path := &gripql.GraphStatement{Statement: &gripql.GraphStatement_Path{Path: lv()}}
	return map[string][]*gripql.GraphStatement{
		"vertices":    gripql.V().Statements,
		"edges":       gripql.E().Statements,
		"count":       gripql.V().Count().Statements,
		"selection":   gripql.V().As("a").OutE().As("b").Select("a", "b").Statements,
		"render":      gripql.V().Render(map[string]any{"id": "_gid", "n": "n", "deep": "m.k"}).Statements,
		"path":        append(gripql.V().OutE().Out().Statements, path),
		"aggregation": gripql.V().Aggregate([]*gripql.Aggregate{term, cnt}).Statements,
		"unloaded":    gripql.V().Out().HasLabel("P").Statements,
		"marks":       gripql.V().As("a").Out().Statements,
	}
}

// ---------------- part B model

type c11Job struct {
	Graph   string
	Q       int
	Deleted bool
}

type c11State struct {
	hist []c11Op
	jobs []c11Job
}

type c11Op struct {
	Kind  string // Submit Delete Restart
	Graph string
	Q     int
	Job   int
}

func (o c11Op) String() string {
	switch o.Kind {
	case "Submit":
		return fmt.Sprintf("Submit(%s,q%d)", o.Graph, o.Q)
	case "Delete":
		return fmt.Sprintf("Delete(job#%d)", o.Job)
	}
	return "Restart"
}

func c11Queries() [][]*gripql.GraphStatement {
	return [][]*gripql.GraphStatement{
		gripql.V().Statements,                     // 1 step: never found by search
		gripql.V().Out().Statements,               // 2 steps
		gripql.V().Out().HasLabel("P").Statements, // extends q1
		gripql.V().In().Statements,                // 2 steps, diverges at step 2
		gripql.V().Out().HasLabel("Q").Statements, // same length as q2, differs in the last step
		gripql.V().In().HasLabel("P").Statements,  // same length and same LAST step as q2, differs in the middle
	}
}

func prefixOf(a, b []*gripql.GraphStatement) bool {
	if len(a) > len(b) {
		return false
	}
	for i := range a {
		if a[i].String() != b[i].String() {
			return false
		}
	}
	return true
}

// C11 runs the check.
func C11(tier string) int {
	run := vf.NewRun("C11", tier, "model_checking")
	c11Body(run, tier)
	return run.Finish()
}

// c11Body is the history/program part of the check (unscheduled real code); the
// scheduler build adds the completion/restart/delete interleavings (sched_c11.go).
func c11Body(run *vf.Run, tier string) {
	// ---- part T: a job releases the temporary storage of its traversal (a step such as distinct() keeps
	// its state in a scratch key-value store under the server's work directory)
	{
		db, _ := sizedGraph(5)
		wd := filepath.Join(harnessWorkDir(), fmt.Sprintf("c11-tmp-%d", atomic.AddInt64(&c11Dirs, 1)))
		os.MkdirAll(wd, 0o755)
		jd := filepath.Join(wd, "jobs")
		os.MkdirAll(jd, 0o755)
		srv := newServerWorkDir(db, filepath.Join(wd, "work"))
		os.MkdirAll(filepath.Join(wd, "work"), 0o755)
		srv.VerifSetJobStorage(jobstorage.NewFSJobStorage(jd))
		e := &c11Env{srv: srv, db: db, dir: jd}
		for _, q := range []struct {
			name  string
			stmts []*gripql.GraphStatement
		}{{"V().distinct()", gripql.V().Distinct().Statements}, {"V().out().distinct(_label).count()", gripql.V().Out().Distinct("_label").Count().Statements}} {
			_, st, err := e.submit("g", q.stmts)
			if err != nil || st == nil || st.State != gripql.JobState_COMPLETE {
				continue
			}
			left := []string{"?"}
			for i := 0; i < 600 && len(left) > 0; i++ { // patient: the clean-up runs after the job's last row
				left = left[:0]
				ents, _ := os.ReadDir(filepath.Join(wd, "work"))
				for _, en := range ents {
					left = append(left, en.Name())
				}
				if len(left) > 0 {
					time.Sleep(100 * time.Millisecond)
				}
			}
			if len(left) > 0 {
				run.Report(vf.Violation{Sig: "store|temp-storage-left-behind", Detail: fmt.Sprintf("job %s is COMPLETE, one minute later the server's work directory still holds %v (the scratch store of the traversal is neither closed nor removed)", q.name, left), Replay: map[string]any{"query": q.name}})
			}
		}
		os.RemoveAll(wd)
	}
	thorough := tier == "thorough"
	defer os.RemoveAll(harnessWorkDir())
	evals := 0
	var samples []string
	distinct := map[string]bool{}

	// ---- part A1: result types x sizes
	for _, n := range []int{0, 1, 3, 4, 5, 9, 40, 41, 45} {
		db, gi := sizedGraph(n)
		env := c11New(db)
		for name, q := range c11Family() {
			direct := qrun.Run(gi.Compiler(), q, 30*time.Second)
			var want []string
			for _, r := range direct.Rows {
				want = append(want, refsem.CanonJSON(r))
			}
			sort.Strings(want)
			id, st, err := env.submit("g", q)
			evals++
			rep := map[string]any{"family": name, "vertices": n}
			if err != nil || st == nil {
				run.Report(vf.Violation{Sig: "store|" + name + "|submit-failed", Detail: fmt.Sprintf("%s on %d vertices: %v", name, n, err), Replay: rep})
				continue
			}
			if int(st.Count) != len(want) {
				run.Report(vf.Violation{Sig: "store|" + name + "|status-count", Detail: fmt.Sprintf("%s on %d vertices: status count %d, direct run returns %d rows", name, n, st.Count, len(want)), Replay: rep})
			}
			sink := &rowSink{}
			if err := env.srv.ViewJob(&gripql.QueryJob{Graph: "g", Id: id}, sink); err != nil {
				run.Report(vf.Violation{Sig: "store|" + name + "|view-failed", Detail: fmt.Sprintf("%s on %d vertices: %v", name, n, err), Replay: rep})
				continue
			}
			got := sink.sorted()
			if strings.Join(got, "\n") != strings.Join(want, "\n") {
				d := listDirection("["+strings.Join(want, " ")+"]", "["+strings.Join(got, " ")+"]")
				run.Report(vf.Violation{Sig: "store|" + name + "|rows-" + d, Detail: fmt.Sprintf("%s on %d vertices: direct %d rows, stored job %d rows; first direct %.200s first stored %.200s", name, n, len(want), len(got), first(want), first(got)), Replay: rep})
			}
			distinct[fmt.Sprintf("A1|%s|%d", name, len(want))] = true
		}
		env.close()
	}

	// ---- part A2: every split of every well-typed program
	maxLen := 3
	if thorough {
		maxLen = 4
	}
	var progs [][]refsem.Step
	{
		alpha := progenum.Alphabet(true)
		alpha = append(alpha, refsem.Step{Op: "select", Strs: []string{"m1"}}, refsem.Step{Op: "render", Tmpl: map[string]any{"a": "$m1._gid", "b": "n"}})
		level := [][]refsem.Step{}
		for _, s := range progenum.Starts()[:1] {
			level = append(level, []refsem.Step{s})
		}
		level = append(level, []refsem.Step{{Op: "E"}})
		for l := 2; l <= maxLen; l++ {
			var next [][]refsem.Step
			for _, p := range level {
				for _, s := range alpha {
					np := append(append([]refsem.Step{}, p...), s)
					if ty, _, _ := refsem.TypeOf(np); ty == refsem.WellTyped && c02Comparable(np) {
						next = append(next, np)
					}
				}
			}
			progs = append(progs, next...)
			level = next
		}
	}
	fx := progenum.Fixtures()
	type tgt struct {
		name string
		db   gdbi.GraphDB
		gi   gdbi.GraphInterface
	}
	var tgts []tgt
	for _, i := range []int{2, 4} {
		db, gi := fx[i].LoadMem()
		tgts = append(tgts, tgt{fx[i].Name, db, gi})
	}
	var mu sync.Mutex
	var wg sync.WaitGroup
	sem := make(chan struct{}, 16)
	for _, tg := range tgts {
		env := c11New(tg.db)
		prefixJobs := map[string]string{} // Q1 -> job id (submitted once)
		var pmu sync.Mutex
		for pi, p := range progs {
			wg.Add(1)
			sem <- struct{}{}
			go func(pi int, p []refsem.Step) {
				defer wg.Done()
				defer func() { <-sem }()
				direct := qrun.Run(tg.gi.Compiler(), refsem.Stmts(p), 30*time.Second)
				if direct.CompileErr != nil || direct.TimedOut {
					return
				}
				var want []string
				for _, r := range direct.Rows {
					want = append(want, refsem.CanonJSON(r))
				}
				sort.Strings(want)
				for k := 1; k < len(p); k++ {
					q1, q2 := p[:k], p[k:]
					if ty, kind, _ := refsem.TypeOf(q1); ty != refsem.WellTyped || (kind != refsem.KVertex && kind != refsem.KEdge) {
						continue // only element streams can be extended
					}
					if endsTrunc(q1) {
						continue
					}
					key := refsem.ProgName(q1)
					pmu.Lock()
					id, ok := prefixJobs[key]
					if !ok {
						var err error
						var st *gripql.JobStatus
						id, st, err = env.submit("g", refsem.Stmts(q1))
						if err != nil || st == nil {
							id = "!"
						}
						prefixJobs[key] = id
					}
					pmu.Unlock()
					if id == "!" {
						continue
					}
					sink := &rowSink{}
					err := env.srv.ResumeJob(&gripql.ExtendQuery{Graph: "g", SrcId: id, Query: refsem.Stmts(q2)}, sink)
					mu.Lock()
					evals++
					distinct[fmt.Sprintf("A2|%s|%d", opSeq(p), k)] = true
					if len(samples) < 4 && evals%499 == 0 {
						samples = append(samples, fmt.Sprintf("submit %s ; resume with %s", refsem.ProgName(q1), refsem.ProgName(q2)))
					}
					mu.Unlock()
					rep := map[string]any{"program": refsem.ProgName(p), "split_after": k, "fixture": tg.name}
					if err != nil {
						run.Report(vf.Violation{Sig: fmt.Sprintf("resume|%s|after=%s|error", opSeq(q2), lastOp(q1)), Detail: fmt.Sprintf("on %s: submit %s, resume %s: %v", tg.name, refsem.ProgName(q1), refsem.ProgName(q2), err), Replay: rep})
						continue
					}
					got := sink.sorted()
					if strings.Join(got, "\n") != strings.Join(want, "\n") {
						d := listDirection("["+strings.Join(want, " ")+"]", "["+strings.Join(got, " ")+"]")
						run.Report(vf.Violation{Sig: fmt.Sprintf("resume|%s|after=%s|%s", opSeq(q2), lastOp(q1), d),
							Detail: fmt.Sprintf("on %s: %s directly gives %v; submitting %s and resuming with %s gives %v", tg.name, refsem.ProgName(p), want, refsem.ProgName(q1), refsem.ProgName(q2), got), Replay: rep})
					}
				}
			}(pi, p)
		}
		wg.Wait()
		// a stored job is what its own traversal produced: resuming it, with whatever extra steps, must not
		// change it (the marks a job knows are the ones its own statements set)
		var keys []string
		for k := range prefixJobs {
			keys = append(keys, k)
		}
		sort.Strings(keys)
		for _, k := range keys {
			id := prefixJobs[k]
			if id == "!" {
				continue
			}
			st, err := env.js.Stream(context.Background(), "g", id)
			if err != nil {
				continue
			}
			go func() {
				for range st.Pipe {
				}
			}()
			var extra []string
			for m := range st.MarkTypes {
				if !strings.Contains(k, "as("+m+")") {
					extra = append(extra, m)
				}
			}
			sort.Strings(extra)
			evals++
			if len(extra) > 0 {
				run.Report(vf.Violation{Sig: "resume|stored-job-changed|mark-types", Detail: fmt.Sprintf("on %s: after the resumes of job %s the stored job lists the marks %v, which its own statements never set (a resume with as() writes into the stored job; two concurrent resumes write the same map)", tg.name, k, extra), Replay: map[string]any{"job": k, "marks": extra}})
			}
		}
		env.close()
	}

	// ---- part B: histories
	db2 := kvgraph.NewKVGraph(memkv.New())
	for _, g := range []string{"g1", "g2"} {
		db2.AddGraph(g)
		gi, _ := db2.Graph(g)
		gi.AddVertex([]*gdbi.Vertex{{ID: "a", Label: "P", Loaded: true}, {ID: "b", Label: "Q", Loaded: true}})
		gi.AddEdge([]*gdbi.Edge{{ID: "e", From: "a", To: "b", Label: "x", Loaded: true}})
	}
	qs := c11Queries()
	var ops []c11Op
	for _, g := range []string{"g1", "g2"} {
		for qi := range qs {
			if g == "g2" && qi > 1 {
				continue
			}
			ops = append(ops, c11Op{Kind: "Submit", Graph: g, Q: qi})
		}
	}
	for j := 0; j < 3; j++ {
		ops = append(ops, c11Op{Kind: "Delete", Job: j})
	}
	ops = append(ops, c11Op{Kind: "Restart"})
	depth := 3
	if thorough {
		depth = 4
	}
	st := histmc.BFS(c11State{}, "init", ops, depth, time.Now().Add(10*time.Minute), func(s c11State, op c11Op) histmc.Succ[c11State] {
		if op.Kind == "Delete" && op.Job >= len(s.jobs) {
			return histmc.Succ[c11State]{}
		}
		env := c11New(db2)
		defer env.close()
		hist := append(append([]c11Op{}, s.hist...), op)
		var ids []string
		apply := func(o c11Op) error {
			switch o.Kind {
			case "Submit":
				id, _, err := env.submit(o.Graph, qs[o.Q])
				ids = append(ids, id)
				return err
			case "Delete":
				j := o.Job
				_, err := env.srv.DeleteJob(context.Background(), &gripql.QueryJob{Graph: sJobGraph(hist, j), Id: ids[j]})
				return err
			case "Restart":
				env.restart()
			}
			return nil
		}
		for _, o := range s.hist {
			apply(o)
		}
		err := apply(op)
		jobs := append([]c11Job{}, s.jobs...)
		switch op.Kind {
		case "Submit":
			jobs = append(jobs, c11Job{Graph: op.Graph, Q: op.Q})
		case "Delete":
			jobs[op.Job].Deleted = true
		}
		var hs []string
		for _, o := range hist {
			hs = append(hs, o.String())
		}
		hdesc := strings.Join(hs, "; ")
		rep := map[string]any{"history": hs}
		if err != nil {
			run.Report(vf.Violation{Sig: "history|" + op.Kind + "|error", Detail: fmt.Sprintf("[%s]: %v", hdesc, err), Replay: rep})
			return histmc.Succ[c11State]{}
		}
		// observations
		for _, g := range []string{"g1", "g2"} {
			var want []string
			for j, jb := range jobs {
				if jb.Graph == g && !jb.Deleted {
					want = append(want, ids[j])
				}
			}
			sort.Strings(want)
			ls := &jobSink{}
			env.srv.ListJobs(&gripql.GraphID{Graph: g}, ls)
			sort.Strings(ls.ids)
			if strings.Join(ls.ids, ",") != strings.Join(want, ",") {
				run.Report(vf.Violation{Sig: "history|list|" + listDirection("["+strings.Join(want, " ")+"]", "["+strings.Join(ls.ids, " ")+"]") + "|after-" + op.Kind,
					Detail: fmt.Sprintf("[%s]: jobs listed on %s: %d, expected %d (live jobs of that graph)", hdesc, g, len(ls.ids), len(want)), Replay: rep})
			}
			for qi, q := range qs {
				var wantS []string
				for j, jb := range jobs {
					if jb.Graph == g && !jb.Deleted && len(qs[jb.Q]) >= 2 && prefixOf(qs[jb.Q], q) {
						wantS = append(wantS, ids[j])
					}
				}
				sort.Strings(wantS)
				ss := &statusSink{}
				env.srv.SearchJobs(&gripql.GraphQuery{Graph: g, Query: q}, ss)
				sort.Strings(ss.ids)
				if strings.Join(ss.ids, ",") != strings.Join(wantS, ",") {
					run.Report(vf.Violation{Sig: fmt.Sprintf("history|search|%s|after-%s", listDirection("["+strings.Join(wantS, " ")+"]", "["+strings.Join(ss.ids, " ")+"]"), op.Kind),
						Detail: fmt.Sprintf("[%s]: search on %s for q%d returned %d jobs, expected %d (jobs of that graph whose >=2 statements are a prefix of the query)", hdesc, g, qi, len(ss.ids), len(wantS)), Replay: rep})
				}
			}
		}
		for j, jb := range jobs {
			stt, err := env.srv.GetJob(context.Background(), &gripql.QueryJob{Graph: jb.Graph, Id: ids[j]})
			if jb.Deleted {
				if err == nil {
					run.Report(vf.Violation{Sig: "history|status|deleted-job-still-has-status", Detail: fmt.Sprintf("[%s]: job#%d", hdesc, j), Replay: rep})
				}
				continue
			}
			if err != nil || stt.State != gripql.JobState_COMPLETE {
				run.Report(vf.Violation{Sig: "history|status|live-job-not-complete|after-" + op.Kind, Detail: fmt.Sprintf("[%s]: job#%d: status %v err %v", hdesc, j, stt, err), Replay: rep})
				continue
			}
			gi, _ := db2.Graph(jb.Graph)
			direct := qrun.Run(gi.Compiler(), qs[jb.Q], 30*time.Second)
			sink := &rowSink{}
			env.srv.ViewJob(&gripql.QueryJob{Graph: jb.Graph, Id: ids[j]}, sink)
			var want []string
			for _, r := range direct.Rows {
				want = append(want, refsem.CanonJSON(r))
			}
			sort.Strings(want)
			if strings.Join(sink.sorted(), "\n") != strings.Join(want, "\n") || int(stt.Count) != len(want) {
				run.Report(vf.Violation{Sig: "history|stream|rows-differ|after-" + op.Kind, Detail: fmt.Sprintf("[%s]: job#%d rows %v (count %d), direct %v", hdesc, j, sink.sorted(), stt.Count, want), Replay: rep})
			}
		}
		key := fmt.Sprint(jobs)
		return histmc.Succ[c11State]{State: c11State{hist: hist, jobs: jobs}, Key: key}
	})
	run.Coverage["states"] = st.States
	run.Coverage["transitions"] = st.Transitions
	run.Coverage["traces_validated_against_impl"] = st.Transitions + evals
	run.Coverage["history_depth_completed"] = st.DepthDone
	run.Coverage["history_depth_requested"] = depth
	run.Coverage["store_and_resume_cases"] = evals
	run.Coverage["resume_programs"] = len(progs)
	run.Coverage["evaluations"] = evals + st.Transitions
	run.Coverage["distinct_nontrivial"] = len(distinct)
	run.Coverage["exhaustive"] = st.Exhaustive
	run.Coverage["rule"] = "A1: 9 traversal families (all result types) x 9 graph sizes around 4/40; A2: every split of every well-typed order-independent program up to the length bound over the core alphabet on 2 fixtures; B: BFS over submit(6 queries x 2 graphs)/delete/restart histories with list, search (6 probe queries), status and stream observed after every step"
	if len(samples) == 0 {
		samples = []string{"submit V().as(m1) ; resume with out().select(m1)"}
	}
	run.Coverage["samples"] = samples
	run.Assume = []string{
		"the server's job storage is injected through the verif-tagged hook VerifSetJobStorage (Serve() is not run); everything else is the production path: Submit, GetJob, ViewJob, ResumeJob, SearchJobs, ListJobs, DeleteJob, FSJobStorage on a temp directory",
		"completion is awaited by polling GetJob with a 60 s deadline; the Spool/Status race itself is C17's business",
		"search oracle: jobs on that graph, not deleted, with at least two statements that are a prefix (statement-wise equal) of the searched traversal",
	}
}

func sJobGraph(hist []c11Op, j int) string {
	n := 0
	for _, o := range hist {
		if o.Kind == "Submit" {
			if n == j {
				return o.Graph
			}
			n++
		}
	}
	return ""
}

func first(s []string) string {
	if len(s) == 0 {
		return "<none>"
	}
	return s[0]
}

func lastOp(p []refsem.Step) string { return p[len(p)-1].Op }
