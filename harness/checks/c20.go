package checks

// C20: SQL backends treat client-supplied identifiers as data.
//
// Exhaustive finite product: every driver entry point that takes an id, label
// or graph name x every position x a hostile string set, on the REAL psql and
// existing-sql drivers running over a recording database/sql driver (no hook:
// psql opens driver "postgres", existing-sql takes the driver name from its
// config). Every statement text is tokenised by a PostgreSQL-conforming lexer;
// the token structure must equal that of the benign call and the client string
// may only occur as a bound argument or as one string literal that decodes to it.

import (
	"context"
	"fmt"
	"os"
	"reflect"
	"sort"
	"strings"
	"time"

	esql "github.com/bmeg/grip/existing-sql"
	"github.com/bmeg/grip/gdbi"
	"github.com/bmeg/grip/psql"

	"verif/harness/sqlrec"
	"verif/harness/vf"
)

var c20Hostile = []string{
	`'`, `''`, `\`, `\'`, `"`, `--`, `/*`, `;`, `$1`, `%s`, "a\x00b", `é`, `') OR ('1'='1`, `x'; DROP TABLE t; --`,
	// hostile characters behind a long harmless prefix (validation or quoting applied to a truncated copy)
	strings.Repeat("a", 60) + `'); DROP TABLE t; --`, strings.Repeat("b", 130) + `'`,
}

type c20Entry struct {
	Name      string
	Positions []string                          // name of each client-string position
	Benign    []string                          // benign value per position
	Call      func(db gdbi.GraphDB, a []string) // must not panic the harness
}

func lookupChan(ids ...string) chan gdbi.ElementLookup {
	c := make(chan gdbi.ElementLookup, len(ids))
	for _, id := range ids {
		c <- gdbi.ElementLookup{ID: id}
	}
	close(c)
	return c
}

func drain[T any](c <-chan T) {
	t := time.After(5 * time.Second)
	for {
		select {
		case _, ok := <-c:
			if !ok {
				return
			}
		case <-t:
			return
		}
	}
}

func c20Entries(idA, idB, eid string) []c20Entry {
	graph := func(db gdbi.GraphDB) gdbi.GraphInterface {
		g, err := db.Graph("g")
		if err != nil {
			panic("cannot open benign graph: " + err.Error())
		}
		sqlrec.Take() // statements of opening the benign graph are not part of the call under test
		return g
	}
	ctx := context.Background()
	adj := func(name string, f func(gi gdbi.GraphInterface, c chan gdbi.ElementLookup, labels []string) chan gdbi.ElementLookup) c20Entry {
		return c20Entry{Name: name, Positions: []string{"id0", "id1", "label0", "label1"}, Benign: []string{idA, idB, "purchased", "owns"},
			Call: func(db gdbi.GraphDB, a []string) {
				gi := graph(db)
				drain(f(gi, lookupChan(a[0], a[1]), []string{a[2], a[3]}))
			}}
	}
	return []c20Entry{
		{Name: "GraphDB.Graph", Positions: []string{"graph"}, Benign: []string{"g"}, Call: func(db gdbi.GraphDB, a []string) { db.Graph(a[0]) }},
		{Name: "GraphDB.AddGraph", Positions: []string{"graph"}, Benign: []string{"g2"}, Call: func(db gdbi.GraphDB, a []string) { db.AddGraph(a[0]) }},
		{Name: "GraphDB.DeleteGraph", Positions: []string{"graph"}, Benign: []string{"g"}, Call: func(db gdbi.GraphDB, a []string) { db.DeleteGraph(a[0]) }},
		{Name: "GraphDB.BuildSchema", Positions: []string{"graph"}, Benign: []string{"g"}, Call: func(db gdbi.GraphDB, a []string) { db.BuildSchema(ctx, a[0], 1, false) }},
		{Name: "GetVertex", Positions: []string{"id"}, Benign: []string{idA}, Call: func(db gdbi.GraphDB, a []string) { graph(db).GetVertex(a[0], true) }},
		{Name: "GetEdge", Positions: []string{"id"}, Benign: []string{eid}, Call: func(db gdbi.GraphDB, a []string) { graph(db).GetEdge(a[0], true) }},
		{Name: "DelVertex", Positions: []string{"id"}, Benign: []string{idA}, Call: func(db gdbi.GraphDB, a []string) { graph(db).DelVertex(a[0]) }},
		{Name: "DelEdge", Positions: []string{"id"}, Benign: []string{eid}, Call: func(db gdbi.GraphDB, a []string) { graph(db).DelEdge(a[0]) }},
		{Name: "VertexLabelScan", Positions: []string{"label"}, Benign: []string{"users"}, Call: func(db gdbi.GraphDB, a []string) { drain(graph(db).VertexLabelScan(ctx, a[0])) }},
		{Name: "AddVertex", Positions: []string{"id", "label", "property-name", "property-value"}, Benign: []string{idA, "users", "k", "v"}, Call: func(db gdbi.GraphDB, a []string) {
			graph(db).AddVertex([]*gdbi.Vertex{{ID: a[0], Label: a[1], Data: map[string]any{a[2]: a[3]}, Loaded: true}})
		}},
		// batched calls (two elements of one kind): per-batch statements (locks, IN lists, multi-row inserts) only exist here
		{Name: "AddVertex-batch", Positions: []string{"id0", "label0", "id1", "label1"}, Benign: []string{idA, "users", idB, "users"}, Call: func(db gdbi.GraphDB, a []string) {
			graph(db).AddVertex([]*gdbi.Vertex{{ID: a[0], Label: a[1], Data: map[string]any{"k": "v"}, Loaded: true}, {ID: a[2], Label: a[3], Data: map[string]any{"k": "w"}, Loaded: true}})
		}},
		{Name: "AddEdge-batch", Positions: []string{"id0", "label0", "from0", "to0", "id1", "label1", "from1", "to1"}, Benign: []string{"e1", "purchased", idA, idB, "e2", "purchased", idB, idA}, Call: func(db gdbi.GraphDB, a []string) {
			graph(db).AddEdge([]*gdbi.Edge{{ID: a[0], Label: a[1], From: a[2], To: a[3], Loaded: true}, {ID: a[4], Label: a[5], From: a[6], To: a[7], Loaded: true}})
		}},
		{Name: "BulkAdd-batch", Positions: []string{"vertex-id0", "vertex-id1", "edge-id0", "edge-id1"}, Benign: []string{idA, idB, "e1", "e2"}, Call: func(db gdbi.GraphDB, a []string) {
			c := make(chan *gdbi.GraphElement, 4)
			c <- &gdbi.GraphElement{Graph: "g", Vertex: &gdbi.Vertex{ID: a[0], Label: "users", Loaded: true}}
			c <- &gdbi.GraphElement{Graph: "g", Vertex: &gdbi.Vertex{ID: a[1], Label: "users", Loaded: true}}
			c <- &gdbi.GraphElement{Graph: "g", Edge: &gdbi.Edge{ID: a[2], Label: "purchased", From: idA, To: idB, Loaded: true}}
			c <- &gdbi.GraphElement{Graph: "g", Edge: &gdbi.Edge{ID: a[3], Label: "purchased", From: idB, To: idA, Loaded: true}}
			close(c)
			graph(db).BulkAdd(c)
		}},
		{Name: "AddEdge", Positions: []string{"id", "label", "from", "to"}, Benign: []string{"e1", "purchased", idA, idB}, Call: func(db gdbi.GraphDB, a []string) {
			graph(db).AddEdge([]*gdbi.Edge{{ID: a[0], Label: a[1], From: a[2], To: a[3], Loaded: true}})
		}},
		{Name: "BulkAdd", Positions: []string{"vertex-id", "vertex-label", "edge-id", "edge-label", "from", "to"}, Benign: []string{idA, "users", "e1", "purchased", idA, idB}, Call: func(db gdbi.GraphDB, a []string) {
			c := make(chan *gdbi.GraphElement, 2)
			c <- &gdbi.GraphElement{Graph: "g", Vertex: &gdbi.Vertex{ID: a[0], Label: a[1], Loaded: true}}
			c <- &gdbi.GraphElement{Graph: "g", Edge: &gdbi.Edge{ID: a[2], Label: a[3], From: a[4], To: a[5], Loaded: true}}
			close(c)
			graph(db).BulkAdd(c)
		}},
		{Name: "AddVertexIndex", Positions: []string{"label", "field"}, Benign: []string{"users", "name"}, Call: func(db gdbi.GraphDB, a []string) { graph(db).AddVertexIndex(a[0], a[1]) }},
		{Name: "DeleteVertexIndex", Positions: []string{"label", "field"}, Benign: []string{"users", "name"}, Call: func(db gdbi.GraphDB, a []string) { graph(db).DeleteVertexIndex(a[0], a[1]) }},
		{Name: "GetVertexChannel", Positions: []string{"id0", "id1"}, Benign: []string{idA, idB}, Call: func(db gdbi.GraphDB, a []string) {
			drain(graph(db).GetVertexChannel(ctx, lookupChan(a[0], a[1]), true))
		}},
		adj("GetOutChannel", func(gi gdbi.GraphInterface, c chan gdbi.ElementLookup, l []string) chan gdbi.ElementLookup {
			return gi.GetOutChannel(ctx, c, true, false, l)
		}),
		adj("GetInChannel", func(gi gdbi.GraphInterface, c chan gdbi.ElementLookup, l []string) chan gdbi.ElementLookup {
			return gi.GetInChannel(ctx, c, true, false, l)
		}),
		adj("GetOutEdgeChannel", func(gi gdbi.GraphInterface, c chan gdbi.ElementLookup, l []string) chan gdbi.ElementLookup {
			return gi.GetOutEdgeChannel(ctx, c, true, false, l)
		}),
		adj("GetInEdgeChannel", func(gi gdbi.GraphInterface, c chan gdbi.ElementLookup, l []string) chan gdbi.ElementLookup {
			return gi.GetInEdgeChannel(ctx, c, true, false, l)
		}),
	}
}

// entry points without client strings (listed so that the reflection audit below is complete)
var c20NoStrings = map[string]bool{
	"Close": true, "ListGraphs": true, "Compiler": true, "GetTimestamp": true, "GetVertexList": true, "GetEdgeList": true,
	"ListVertexLabels": true, "ListEdgeLabels": true, "GetVertexIndexList": true,
}

type c20Call struct {
	stmts []sqlrec.Stmt
	pan   string
}

func c20Run(db gdbi.GraphDB, e c20Entry, args []string) c20Call {
	sqlrec.Reset()
	var c c20Call
	done := make(chan struct{})
	go func() {
		defer close(done)
		defer func() {
			if r := recover(); r != nil {
				c.pan = fmt.Sprint(r)
			}
		}()
		e.Call(db, args)
	}()
	select {
	case <-done:
	case <-time.After(10 * time.Second):
		c.pan = "hang"
	}
	time.Sleep(2 * time.Millisecond) // let straggling driver goroutines record
	c.stmts = sqlrec.Take()
	return c
}

// C20 runs the check.
func C20(tier string) int {
	run := vf.NewRun("C20", tier, "exploration")
	sqlrec.Register("postgres", "verifrec")
	pdb, err := psql.NewGraphDB(psql.Config{Host: "h", Port: 1, User: "u", Password: "p", DBName: "d", SSLMode: "disable"})
	if err != nil {
		fmt.Fprintln(os.Stderr, "C20: cannot start psql driver on the recording database:", err)
		return 2
	}
	edb, err := esql.NewGraphDB(esql.Config{Driver: "verifrec", DataSourceName: "x", Graphs: []*esql.Schema{{
		Graph: "g",
		Vertices: []*esql.Vertex{
			{Table: "users", GidField: "id", Label: "users"},
			{Table: "items", GidField: "id", Label: "items"},
		},
		Edges: []*esql.Edge{
			{Table: "purchases", GidField: "id", Label: "purchased",
				From: &esql.ForeignKey{SourceField: "user_id", DestTable: "users", DestField: "id"},
				To:   &esql.ForeignKey{SourceField: "item_id", DestTable: "items", DestField: "id"}},
			{Table: "", Label: "owns",
				From: &esql.ForeignKey{DestTable: "users", DestField: "id"},
				To:   &esql.ForeignKey{DestTable: "items", DestField: "owner_id"}},
		},
	}}})
	if err != nil {
		fmt.Fprintln(os.Stderr, "C20: cannot start existing-sql driver on the recording database:", err)
		return 2
	}
	sqlrec.Take()
	type target struct {
		name    string
		db      gdbi.GraphDB
		entries []c20Entry
		// hostile value placed at a position: for existing-sql ids are "<table>:<key>", so both halves are client data
		variants func(pos, benign, h string) []string
	}
	targets := []target{
		{"psql", pdb, c20Entries("v1", "v2", "e1"), func(pos, benign, h string) []string { return []string{h} }},
		{"existing-sql", edb, c20Entries("users:1", "items:2", "purchases:3"), func(pos, benign, h string) []string {
			if strings.Contains(benign, ":") {
				return []string{strings.SplitN(benign, ":", 2)[0] + ":" + h, h + ":1"}
			}
			return []string{h}
		}},
	}
	// reflection audit: every method of the two interfaces is either driven or known to take no client string
	handled := map[string]bool{}
	for _, e := range targets[0].entries {
		handled[strings.TrimPrefix(e.Name, "GraphDB.")] = true
	}
	for _, t := range []reflect.Type{reflect.TypeOf((*gdbi.GraphDB)(nil)).Elem(), reflect.TypeOf((*gdbi.GraphInterface)(nil)).Elem()} {
		for i := 0; i < t.NumMethod(); i++ {
			n := t.Method(i).Name
			if !handled[n] && !c20NoStrings[n] {
				run.Report(vf.Violation{Sig: "audit|unhandled-entry-point|" + n, Detail: "interface method " + n + " is not driven by the check", Replay: n})
			}
		}
	}
	cases, stmtsSeen := 0, 0
	distinct := map[string]bool{}
	var samples []string
	for _, tg := range targets {
		mysql := false
		for _, e := range tg.entries {
			ben := c20Run(tg.db, e, e.Benign)
			benShapes := map[string][]sqlrec.Token{}
			for _, s := range ben.stmts {
				toks, err := sqlrec.Lex(s.Text, mysql)
				if err != nil {
					run.Report(vf.Violation{Sig: fmt.Sprintf("%s|%s|benign-statement-does-not-lex", tg.name, e.Name), Detail: s.Text + ": " + err.Error(), Replay: s.Text})
				}
				benShapes[s.Kind+": "+sqlrec.Shape(toks)] = toks
			}
			for pi, pos := range e.Positions {
				for _, h := range c20Hostile {
					for _, hv := range tg.variants(pos, e.Benign[pi], h) {
						args := append([]string{}, e.Benign...)
						args[pi] = hv
						got := c20Run(tg.db, e, args)
						cases++
						stmtsSeen += len(got.stmts)
						sig := fmt.Sprintf("%s|%s|%s", tg.name, e.Name, pos)
						rep := map[string]any{"driver": tg.name, "entry_point": e.Name, "position": pos, "input": hv}
						if len(got.stmts) == 0 {
							continue // refused before any statement was built
						}
						distinct[sig+"|"+h] = true
						bad, class := "", ""
						for _, s := range got.stmts {
							toks, err := sqlrec.Lex(s.Text, mysql)
							if err != nil {
								bad, class = fmt.Sprintf("statement does not lex (%v): %s", err, s.Text), "does-not-lex"
								break
							}
							// (1) the token structure must be one the benign call produces too
							btoks, ok := benShapes[s.Kind+": "+sqlrec.Shape(toks)]
							if !ok {
								var bs []string
								for k := range benShapes {
									bs = append(bs, k)
								}
								sort.Strings(bs)
								bad = fmt.Sprintf("token structure is not one of the benign call's:\n hostile: %s\n benign:  %s", s.Kind+": "+sqlrec.Shape(toks), strings.Join(bs, " || "))
								// what kind of difference: the same tokens except for the text of identifiers (a client
								// name that is part of a table name by design) or a different token sequence
								class = "token-sequence"
								for _, bt := range benShapes {
									if len(bt) != len(toks) {
										continue
									}
									same := true
									for i := range toks {
										if toks[i].Kind != bt[i].Kind || (toks[i].Kind != "word" && toks[i].Kind != "string" && toks[i].Kind != "dollar" && toks[i].Kind != "number" && toks[i].Text != bt[i].Text) {
											same = false
											break
										}
									}
									if same {
										class = "identifier-text"
										break
									}
								}
								break
							}
							// (2) where the benign statement carries the benign input as a literal, the hostile one must carry the hostile input
							for i := range toks {
								if (toks[i].Kind == "string" || toks[i].Kind == "dollar") && i < len(btoks) && btoks[i].Val == e.Benign[pi] && toks[i].Val != hv {
									bad, class = fmt.Sprintf("the literal that carries the client string decodes to %q instead of %q: %s", toks[i].Val, hv, s.Text), "literal-decodes-differently"
								}
							}
						}
						if bad != "" {
							run.Report(vf.Violation{Sig: sig + "|" + class, Detail: fmt.Sprintf("%s(%s=%q): %s", e.Name, pos, hv, bad), Replay: rep})
						}
						if len(samples) < 6 && cases%173 == 0 {
							samples = append(samples, fmt.Sprintf("%s %s(%s=%q) -> %d statement(s), e.g. %s", tg.name, e.Name, pos, hv, len(got.stmts), got.stmts[0].Text))
						}
					}
				}
			}
		}
	}
	run.Coverage["evaluations"] = cases
	run.Coverage["statements_lexed"] = stmtsSeen
	run.Coverage["distinct_nontrivial"] = len(distinct)
	run.Coverage["hostile_strings"] = len(c20Hostile)
	run.Coverage["entry_points_per_driver"] = len(targets[0].entries)
	run.Coverage["rule"] = fmt.Sprintf("every entry point x every client-string position x %d hostile strings", len(c20Hostile)) + " (existing-sql ids: hostile key and hostile table part); non-trivial = the call reached the database with at least one statement"
	run.Coverage["samples"] = samples
	run.Coverage["exhaustive"] = true
	run.Assume = []string{
		"statement text is lexed with PostgreSQL rules, standard_conforming_strings=on (sqlrec.Lex); equal token structure = same sequence of words, operators, quoted identifiers, with literal contents abstracted",
		"a call that is refused before any statement is sent is fine",
		"the recording driver answers every query with an empty result (one canned row for the graphs table), so code that only runs on returned rows is not reached",
	}
	return run.Finish()
}
