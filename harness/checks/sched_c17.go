//go:build vsched

package checks

// C17: concurrent clients cannot corrupt or crash the server.
//
// 2-3 client goroutines with 1-2 calls each against the real GripServer handler
// methods over the instrumented kvgraph on memkv (a scheduling point before
// every key-value call, at the store's writer lock and at every channel /
// goroutine operation of the server and the pipeline). Oracle: no panic; and
// once all calls have returned, (return values, observable graphs) must equal
// those of SOME sequential order of the same calls that respects each client's
// own order. The sequential reference is the real code itself, run unscheduled.

import (
	"context"
	"fmt"
	"sort"
	"strings"
	"time"

	"github.com/bmeg/grip/gdbi"
	"github.com/bmeg/grip/gripql"
	"github.com/bmeg/grip/kvgraph"
	"github.com/bmeg/grip/server"
	vs "github.com/bmeg/grip/verifsched"
	vsync "github.com/bmeg/grip/verifsched/vsync"

	"verif/harness/gmodel"
	"verif/harness/memkv"
)

func init() { Registry["C17"] = C17 }

type c17Call struct {
	Name string
	Do   func(srv *server.GripServer) string // returns a canonical rendering of the return value
	Read bool                                // a read: its result is part of the compared outcome
}

// ret runs the call. The property speaks about the stored graphs and about what readers observe, not
// about the status an edit returns (two racing deletes of one edge both report success, sequentially
// the second reports "not found": same graph), so only reads contribute their result.
func (c c17Call) ret(srv *server.GripServer) string {
	r := c.Do(srv)
	if !c.Read {
		return "-"
	}
	return r
}

func errS(err error) string {
	if err != nil {
		return "error"
	}
	return "ok"
}

func callAddVertex(g, id, label string) c17Call {
	return c17Call{Name: fmt.Sprintf("AddVertex(%s,%s:%s)", g, id, label), Do: func(s *server.GripServer) string {
		_, err := s.AddVertex(context.Background(), &gripql.GraphElement{Graph: g, Vertex: &gripql.Vertex{Gid: id, Label: label}})
		return errS(err)
	}}
}
func callAddEdge(g, id, from, to, label string) c17Call {
	return c17Call{Name: fmt.Sprintf("AddEdge(%s,%s:%s->%s:%s)", g, id, from, to, label), Do: func(s *server.GripServer) string {
		_, err := s.AddEdge(context.Background(), &gripql.GraphElement{Graph: g, Edge: &gripql.Edge{Gid: id, From: from, To: to, Label: label}})
		return errS(err)
	}}
}
func callDelEdge(g, id string) c17Call {
	return c17Call{Name: fmt.Sprintf("DeleteEdge(%s,%s)", g, id), Do: func(s *server.GripServer) string {
		_, err := s.DeleteEdge(context.Background(), &gripql.ElementID{Graph: g, Id: id})
		return errS(err)
	}}
}
func callDelVertex(g, id string) c17Call {
	return c17Call{Name: fmt.Sprintf("DeleteVertex(%s,%s)", g, id), Do: func(s *server.GripServer) string {
		_, err := s.DeleteVertex(context.Background(), &gripql.ElementID{Graph: g, Id: id})
		return errS(err)
	}}
}
func callAddGraph(g string) c17Call {
	return c17Call{Name: "AddGraph(" + g + ")", Do: func(s *server.GripServer) string {
		_, err := s.AddGraph(context.Background(), &gripql.GraphID{Graph: g})
		return errS(err)
	}}
}
func callDeleteGraph(g string) c17Call {
	return c17Call{Name: "DeleteGraph(" + g + ")", Do: func(s *server.GripServer) string {
		_, err := s.DeleteGraph(context.Background(), &gripql.GraphID{Graph: g})
		return errS(err)
	}}
}
func callGetEdge(g, id string) c17Call {
	return c17Call{Read: true, Name: fmt.Sprintf("GetEdge(%s,%s)", g, id), Do: func(s *server.GripServer) string {
		e, err := s.GetEdge(context.Background(), &gripql.ElementID{Graph: g, Id: id})
		if err != nil {
			return "notfound"
		}
		return fmt.Sprintf("%s->%s:%s", e.From, e.To, e.Label)
	}}
}
func callGetVertex(g, id string) c17Call {
	return c17Call{Read: true, Name: fmt.Sprintf("GetVertex(%s,%s)", g, id), Do: func(s *server.GripServer) string {
		v, err := s.GetVertex(context.Background(), &gripql.ElementID{Graph: g, Id: id})
		if err != nil {
			return "notfound"
		}
		return v.Label
	}}
}
func callBulk(elems ...*gripql.GraphElement) c17Call {
	var n []string
	for _, e := range elems {
		if e.Vertex != nil {
			n = append(n, e.Graph+":v:"+e.Vertex.Gid+":"+e.Vertex.Label)
		} else {
			n = append(n, e.Graph+":e:"+e.Edge.Gid)
		}
	}
	return c17Call{Name: "BulkAdd[" + strings.Join(n, ",") + "]", Do: func(s *server.GripServer) string {
		st := &c18Stream{}
		for _, e := range elems {
			st.elems = append(st.elems, &gripql.GraphElement{Graph: e.Graph, Vertex: e.Vertex, Edge: e.Edge})
		}
		s.BulkAdd(st)
		if st.result == nil {
			return "noresult"
		}
		return fmt.Sprintf("ins=%d,err=%d", st.result.InsertCount, st.result.ErrorCount)
	}}
}
func callAddSchema(g string) c17Call {
	return c17Call{Name: "AddSchema(" + g + ")", Do: func(s *server.GripServer) string {
		_, err := s.AddSchema(context.Background(), &gripql.Graph{Graph: g, Vertices: []*gripql.Vertex{{Gid: "P", Label: "P"}}})
		return errS(err)
	}}
}
func callGetSchema(g string) c17Call {
	return c17Call{Read: true, Name: "GetSchema(" + g + ")", Do: func(s *server.GripServer) string {
		sc, err := s.GetSchema(context.Background(), &gripql.GraphID{Graph: g})
		if err != nil {
			return "noschema"
		}
		return fmt.Sprintf("schema:%d-vertices", len(sc.Vertices))
	}}
}
func callListGraphs() c17Call {
	return c17Call{Name: "ListGraphs()", Do: func(s *server.GripServer) string {
		_, err := s.ListGraphs(context.Background(), &gripql.Empty{})
		return errS(err)
	}}
}
func callTraversalCount(g string) c17Call {
	return c17Call{Read: true, Name: "Traversal(" + g + ",V().count())", Do: func(s *server.GripServer) string {
		sink := &rowSink{}
		err := s.Traversal(&gripql.GraphQuery{Graph: g, Query: gripql.V().Count().Statements}, sink)
		if err != nil {
			return "error"
		}
		return strings.Join(sink.rows, ";")
	}}
}

// callOutEdges reads the out-edges of a vertex through a real traversal (adjacency scan + record loads).
func callOutEdges(g, v string) c17Call {
	return c17Call{Read: true, Name: "Traversal(" + g + ",V(" + v + ").outE())", Do: func(s *server.GripServer) string {
		sink := &rowSink{}
		err := s.Traversal(&gripql.GraphQuery{Graph: g, Query: gripql.V(v).OutE().Statements}, sink)
		if err != nil {
			return "error"
		}
		rows := append([]string{}, sink.rows...)
		sort.Strings(rows)
		return strings.Join(rows, ";")
	}}
}

type c17Scn struct {
	Name    string
	Setup   []c17Call
	Clients [][]c17Call
	Probe   []c17Call // run sequentially after all clients returned, before the final observation
	Labels  bool      // include the label-index components in the observation (scenarios without relabels/deletes of elements)
}

func c17Scns() []c17Scn {
	v := func(g, id, l string) *gripql.GraphElement {
		return &gripql.GraphElement{Graph: g, Vertex: &gripql.Vertex{Gid: id, Label: l}}
	}
	base := []c17Call{callAddGraph("g1"), callAddVertex("g1", "a", "P"), callAddVertex("g1", "b", "Q")}
	withEdge := append(append([]c17Call{}, base...), callAddEdge("g1", "e", "a", "b", "x"))
	out := []c17Scn{
		{Name: "same-id AddVertex x2", Setup: base, Clients: [][]c17Call{{callAddVertex("g1", "c", "P")}, {callAddVertex("g1", "c", "Q")}}},
		{Name: "AddEdge || DeleteEdge", Setup: base, Clients: [][]c17Call{{callAddEdge("g1", "e", "a", "b", "x")}, {callDelEdge("g1", "e")}}},
		{Name: "AddEdge || DeleteVertex(endpoint)", Setup: base, Clients: [][]c17Call{{callAddEdge("g1", "e", "a", "b", "x")}, {callDelVertex("g1", "b")}}},
		{Name: "re-AddEdge with new endpoints || reader", Setup: withEdge, Clients: [][]c17Call{{callAddEdge("g1", "e", "b", "a", "y")}, {callGetEdge("g1", "e"), callGetEdge("g1", "e")}}},
		{Name: "DeleteEdge || DeleteVertex || reader", Setup: withEdge, Clients: [][]c17Call{{callDelEdge("g1", "e")}, {callDelVertex("g1", "a")}, {callGetEdge("g1", "e")}}},
		{Name: "AddGraph || DeleteGraph, then use the graph", Clients: [][]c17Call{{callAddGraph("g2")}, {callDeleteGraph("g2")}},
			Probe: []c17Call{callAddVertex("g2", "a", "P"), callAddEdge("g2", "e", "a", "a", "x")}, Labels: true},
		{Name: "AddGraph || AddGraph+AddVertex", Clients: [][]c17Call{{callAddGraph("g2")}, {callAddGraph("g2"), callAddVertex("g2", "a", "P")}}, Labels: true},
		{Name: "DeleteGraph || AddGraph (re-create), then use the graph", Setup: []c17Call{callAddGraph("g2"), callAddVertex("g2", "b", "Q")}, Clients: [][]c17Call{{callDeleteGraph("g2")}, {callAddGraph("g2")}},
			Probe: []c17Call{callAddVertex("g2", "a", "P")}, Labels: true},
		{Name: "DeleteGraph || AddVertex", Setup: base, Clients: [][]c17Call{{callDeleteGraph("g1")}, {callAddVertex("g1", "c", "P")}}},
		{Name: "BulkAdd || traversal", Setup: base, Clients: [][]c17Call{{callBulk(v("g1", "c", "P"), v("g1", "d", "Q"))}, {callTraversalCount("g1")}}},
		{Name: "BulkAdd || AddVertex same id", Setup: base, Clients: [][]c17Call{{callBulk(v("g1", "c", "P"), v("g1", "d", "Q"))}, {callAddVertex("g1", "c", "Q")}}},
		{Name: "disjoint-id writers", Setup: base, Clients: [][]c17Call{{callAddVertex("g1", "c", "P"), callAddEdge("g1", "f", "c", "a", "x")}, {callAddVertex("g1", "d", "Q"), callAddEdge("g1", "h", "d", "b", "y")}}},
		{Name: "AddSchema || GetSchema", Setup: base, Clients: [][]c17Call{{callAddSchema("g1")}, {callGetSchema("g1")}}},
		{Name: "AddSchema || AddSchema || GetSchema", Setup: base, Clients: [][]c17Call{{callAddSchema("g1")}, {callAddSchema("g1")}, {callGetSchema("g1")}}},
		{Name: "AddGraph || GetVertex || ListGraphs", Setup: base, Clients: [][]c17Call{{callAddGraph("g2")}, {callGetVertex("g1", "a")}, {callListGraphs()}}},
		{Name: "two relabels || reader", Setup: base, Clients: [][]c17Call{{callAddVertex("g1", "a", "Q")}, {callAddVertex("g1", "a", "R")}, {callGetVertex("g1", "a")}}},
	}
	// every unordered pair (a call may race with itself) of a 9-call alphabet whose ids are forced to
	// collide, on a graph that already holds the edges e: a->b and h: c->b (two deletes of different
	// vertices then work on different incident edges: shared scratch state shows)
	pairSetup := append(append([]c17Call{}, withEdge...), callAddVertex("g1", "c", "P"), callAddEdge("g1", "h", "c", "b", "x"))
	alpha := []c17Call{
		callAddVertex("g1", "a", "R"),         // relabel an endpoint
		callAddEdge("g1", "e", "a", "b", "x"), // re-add the stored edge
		callAddEdge("g1", "e", "b", "a", "y"), // re-add it with other endpoints and label
		callDelEdge("g1", "e"),
		callDelVertex("g1", "a"),
		callDelVertex("g1", "b"),
		callDelVertex("g1", "c"),              // a vertex with an incident edge of its own
		callAddVertex("g1", "d", "P"),         // unrelated new vertex
		callAddEdge("g1", "f", "a", "b", "x"), // second edge between the same endpoints
		callOutEdges("g1", "a"),               // a reader of the adjacency of a: it may only ever see edges somebody wrote
	}
	for i := range alpha {
		for j := i; j < len(alpha); j++ {
			out = append(out, c17Scn{Name: "pair: " + alpha[i].Name + " || " + alpha[j].Name, Setup: pairSetup, Clients: [][]c17Call{{alpha[i]}, {alpha[j]}}})
		}
	}
	return out
}

var c17U = gmodel.Universe{Graphs: []string{"g1", "g2"}, VIDs: []string{"a", "b", "c", "d"}, EIDs: []string{"e", "f", "h"}, VLabels: []string{"P", "Q", "R"}, Filters: [][]string{nil, {"x"}}}

func c17Fresh(controlled bool) (gdbi.GraphDB, *server.GripServer) {
	kv := memkv.New()
	if controlled {
		kv.SetLocker(&vsync.Mutex{})
		kv.Hook = func(op string, key []byte) { vs.PointAt("kv:" + op) }
	}
	db := kvgraph.NewKVGraph(kv)
	return db, newServer(db)
}

func probeString(sc c17Scn, _ []string) string { return "" }

func obsString(db gdbi.GraphDB, labels bool) string {
	o, pan := gmodel.ObserveDB(db, c17U)
	if pan != "" {
		return "observe-panic:" + pan
	}
	var parts []string
	for _, c := range gmodel.Components {
		if !labels && (c == "label-scan" || c == "vlabels" || c == "elabels") {
			continue // stale label-index entries are C03's sequential defect; they depend on the order of relabels
		}
		var items []string
		for k, v := range o[c] {
			items = append(items, k+"="+v)
		}
		sort.Strings(items)
		parts = append(parts, c+"{"+strings.Join(items, ";")+"}")
	}
	return strings.Join(parts, " ")
}

// sequentialOutcomes runs every interleaving of whole calls that respects each client's order.
func sequentialOutcomes(sc c17Scn) map[string]string {
	out := map[string]string{}
	idx := make([]int, len(sc.Clients))
	var order [][2]int
	var rec func()
	rec = func() {
		done := true
		for c := range sc.Clients {
			if idx[c] < len(sc.Clients[c]) {
				done = false
				order = append(order, [2]int{c, idx[c]})
				idx[c]++
				rec()
				idx[c]--
				order = order[:len(order)-1]
			}
		}
		if done {
			db, srv := c17Fresh(false)
			for _, s := range sc.Setup {
				s.Do(srv)
			}
			rets := make([][]string, len(sc.Clients))
			var names []string
			for _, o := range order {
				call := sc.Clients[o[0]][o[1]]
				rets[o[0]] = append(rets[o[0]], call.ret(srv))
				names = append(names, call.Name)
			}
			for _, pr := range sc.Probe {
				names = append(names, "probe:"+pr.Name+"="+pr.Do(srv))
			}
			out[fmt.Sprint(rets)+" || "+probeString(sc, nil)+obsString(db, sc.Labels)] = strings.Join(names, " ; ")
		}
	}
	rec()
	return out
}

func c17Scenarios(tier string) []schedScenario {
	var out []schedScenario
	bound, maxExec, budget := 2, 60000, 150*time.Second
	if tier == "thorough" {
		bound, maxExec, budget = 3, 2000000, 15*time.Minute
	}
	for _, sc := range c17Scns() {
		sc := sc
		allowed := sequentialOutcomes(sc)
		var lastDB gdbi.GraphDB
		var lastSrv *server.GripServer
		out = append(out, schedScenario{Name: sc.Name, Class: sc.Name, Bound: bound, MaxExec: maxExec, Budget: budget, Race: true,
			Accept: func(o []string) string {
				if len(o) != 1 {
					return fmt.Sprintf("harness produced %d observations", len(o))
				}
				// the final observation is taken after the controlled execution has ended (scheduler off)
				for _, pr := range sc.Probe {
					pr.Do(lastSrv)
				}
				got := o[0] + " || " + obsString(lastDB, sc.Labels)
				if _, ok := allowed[got]; ok {
					return ""
				}
				var seq []string
				for k, order := range allowed {
					seq = append(seq, "  ["+order+"] => "+k)
				}
				sort.Strings(seq)
				return "outcome equals no sequential order of the calls.\n observed: " + got + "\n sequential outcomes:\n" + strings.Join(seq, "\n")
			},
			Body: func() {
				db, srv := c17Fresh(true)
				lastDB = db
				lastSrv = srv
				for _, s := range sc.Setup {
					s.Do(srv)
				}
				rets := make([][]string, len(sc.Clients))
				var wg vsync.WaitGroup
				for c := range sc.Clients {
					c := c
					wg.Add(1)
					vs.Go(func() {
						defer wg.Done()
						for _, call := range sc.Clients[c] {
							vs.PointAt("client-call")
							rets[c] = append(rets[c], call.ret(srv))
						}
					})
				}
				wg.Wait()
				vs.Obs(fmt.Sprint(rets))
			}})
	}
	return out
}

// C17 runs the check.
func C17(tier string, args []string) int {
	w := &schedWorker{prop: "C17", scenarios: c17Scenarios(tier)}
	return runSched("C17", tier, args, w,
		"16 hand-written scenarios of 2-3 concurrent clients with 1-2 calls each plus all 55 unordered pairs of a 10-call alphabet (9 edits and a traversal reading the out-edges of a) with colliding ids on a graph holding two edges (same-id writes, add/delete of an edge and of its endpoint, re-adding an edge while reading it, graph creation/deletion against writes, bulk load against a traversal and against a single write, disjoint writers, relabels against a reader, schema upload against schema read, graph creation against lookups and graph listing) on the real GripServer handlers; preemption bound 2 (3 thorough) with state cache; every execution's (return values, final observation of all graphs) must be one of the outcomes of the sequential orders of the same calls, computed by running the real code unscheduled; no panic, no deadlock; no data race (two conflicting hooked accesses unordered by happens-before in any explored execution)",
		[]string{
			"scheduling points: before every key-value call of memkv, at memkv's writer lock, at every channel/goroutine/wait-group operation of server/api.go, kvgraph, kvindex, the pipeline and its processors; key-value calls themselves are atomic (memkv is a serialisable store)",
			"the sequential reference is the implementation itself, so C03's sequential defects are not charged again; label-index components are excluded from the final observation for the same reason",
			"data races are decided by happens-before (vector clock) detection inside every explored execution over the memory accesses that tools/instr -race hooks (struct fields, slice elements, map objects, package variables, closure-shared locals of server/*.go, kvgraph, kvindex, jobstorage/storage.go, timestamp, engine/queue, engine/logic); clocks advance only at spawn, channel, close, mutex, wait-group, Once operations and at store / file-system / sync.Map / cancel calls (one lock each); scheduler hand-offs add no edge; accesses of a statement during which the goroutine synchronised are dropped; unhooked code is invisible",
		})
}
