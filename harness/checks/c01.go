package checks

// C01: traversal results equal the documented step-by-step semantics.
//
// Bounded-exhaustive enumeration (engine progenum): every well-typed statement
// sequence up to a length bound over the step alphabet x the fixture graphs is
// compiled by the production compiler (kvgraph.Compiler()) and run through the
// real pipeline on kvgraph/memkv; the multiset of rows must equal the
// reference interpreter's (refsem). Every ill-typed sequence up to length 3
// must be rejected by Compile. Runs happen in crash-isolated worker processes.

import (
	"fmt"
	"sort"
	"strings"
	"time"

	"github.com/bmeg/grip/gdbi"

	"verif/harness/progenum"
	"verif/harness/qrun"
	"verif/harness/refsem"
	"verif/harness/sweep"
	"verif/harness/vf"
)

type c01Worker struct {
	progs    [][]refsem.Step
	ill      [][]refsem.Step
	fixtures []progenum.Fixture
	gis      []gdbi.GraphInterface
}

func c01Programs(tier string) (well [][]refsem.Step, ill [][]refsem.Step) {
	maxLen := 3
	if tier == "thorough" {
		maxLen = 4
	}
	alpha := progenum.Alphabet(false)
	level := [][]refsem.Step{}
	for _, s := range progenum.Starts() {
		level = append(level, []refsem.Step{s})
	}
	well = append(well, level...)
	for l := 2; l <= maxLen; l++ {
		var next [][]refsem.Step
		for _, p := range level {
			for _, s := range alpha {
				np := append(append([]refsem.Step{}, p...), s)
				ty, _, _ := refsem.TypeOf(np)
				switch ty {
				case refsem.WellTyped:
					next = append(next, np)
				case refsem.IllTyped:
					if l <= 3 {
						ill = append(ill, np)
					}
				}
			}
		}
		well = append(well, next...)
		level = next
	}
	if tier == "thorough" {
		// length 5 over the core alphabet
		core := progenum.Alphabet(true)
		lvl := [][]refsem.Step{}
		for _, s := range progenum.Starts()[:3] {
			lvl = append(lvl, []refsem.Step{s})
		}
		for l := 2; l <= 5; l++ {
			var next [][]refsem.Step
			for _, p := range lvl {
				for _, s := range core {
					np := append(append([]refsem.Step{}, p...), s)
					if ty, _, _ := refsem.TypeOf(np); ty == refsem.WellTyped {
						next = append(next, np)
					}
				}
			}
			lvl = next
		}
		well = append(well, lvl...)
	}
	// edge-centred sweep, one step deeper than the full alphabet (programs already enumerated are skipped)
	seen := map[string]bool{}
	for _, p := range well {
		seen[refsem.ProgName(p)] = true
	}
	edgeLen := 4
	if tier == "thorough" {
		edgeLen = 5
	}
	for _, p := range progenum.EdgePrograms(edgeLen) {
		if !seen[refsem.ProgName(p)] {
			seen[refsem.ProgName(p)] = true
			well = append(well, p)
		}
	}
	// path-centred sweep: long move chains ending in path()
	pathMoves := 4
	if tier == "thorough" {
		pathMoves = 5
	}
	for _, p := range progenum.PathPrograms(pathMoves) {
		if ty, _, _ := refsem.TypeOf(p); ty == refsem.WellTyped && !seen[refsem.ProgName(p)] {
			seen[refsem.ProgName(p)] = true
			well = append(well, p)
		}
	}
	// mark-centred sweep: names marked twice and read back
	markLen := 5
	if tier == "thorough" {
		markLen = 6
	}
	for _, p := range progenum.MarkPrograms(markLen) {
		if !seen[refsem.ProgName(p)] {
			seen[refsem.ProgName(p)] = true
			well = append(well, p)
		}
	}
	// ill-typed: also sequences that do not begin with a start
	all := append(append([]refsem.Step{}, progenum.Starts()...), alpha...)
	for _, a := range alpha {
		ill = append(ill, []refsem.Step{a})
		for _, b := range all[:12] {
			ill = append(ill, []refsem.Step{a, b})
		}
	}
	for _, s := range progenum.Starts() {
		for _, s2 := range progenum.Starts() {
			ill = append(ill, []refsem.Step{s, s2})
		}
	}
	return
}

func newC01Worker(tier string) *c01Worker {
	w := &c01Worker{fixtures: progenum.Fixtures()}
	w.progs, w.ill = c01Programs(tier)
	for _, f := range w.fixtures {
		_, gi := f.LoadMem()
		w.gis = append(w.gis, gi)
	}
	return w
}

func (w *c01Worker) N() int { return len(w.progs) + (len(w.ill)+199)/200 }
func (w *c01Worker) Describe(i int) string {
	if i < len(w.progs) {
		return refsem.ProgName(w.progs[i])
	}
	return fmt.Sprintf("ill-typed batch %d", i-len(w.progs))
}

func opSeq(p []refsem.Step) string {
	var s []string
	for _, x := range p {
		s = append(s, x.Op)
	}
	return strings.Join(s, ".")
}

// c01Compare runs p on fixture fi and returns "" or a description of the disagreement.
func (w *c01Worker) compare(p []refsem.Step, fi int, st sweep.Stats) (direction, detail string) {
	ref := refsem.Eval(w.fixtures[fi].Graph(), p)
	if ref.Undefined != "" {
		st["undefined_by_documentation"]++
		return "", ""
	}
	res := qrun.Run(w.gis[fi].Compiler(), refsem.Stmts(p), 15*time.Second)
	st["runs"]++
	if res.CompileErr != nil {
		return "rejected", fmt.Sprintf("well-typed program rejected by the compiler: %v", res.CompileErr)
	}
	if res.TimedOut {
		st["undecided_timeouts"]++
		return "", ""
	}
	var got []string
	for _, r := range res.Rows {
		got = append(got, refsem.CanonJSON(r))
	}
	sort.Strings(got)
	if len(got) > 0 {
		st["runs_with_rows"]++
	}
	if ref.Trunc {
		if ref.TruncThenCount {
			want := refsem.Canon(map[string]any{"count": float64(ref.TruncCount)})
			if len(got) != 1 || got[0] != want {
				return "count-after-truncation", fmt.Sprintf("expected %s, got %v (untruncated rows: %d)", want, got, len(ref.Rows))
			}
			return "", ""
		}
		if len(got) != ref.TruncCount {
			return "truncation-count", fmt.Sprintf("expected %d rows out of %d, got %d: %v", ref.TruncCount, len(ref.Rows), len(got), got)
		}
		pool := map[string]int{}
		for _, r := range ref.Rows {
			pool[r]++
		}
		for _, r := range got {
			if pool[r] == 0 {
				return "truncation-not-a-sub-multiset", fmt.Sprintf("row %s is not among the untruncated rows %v", r, ref.Rows)
			}
			pool[r]--
		}
		return "", ""
	}
	if strings.Join(got, "\n") != strings.Join(ref.Rows, "\n") {
		return listDirection("["+strings.Join(ref.Rows, " ")+"]", "["+strings.Join(got, " ")+"]"),
			fmt.Sprintf("documented semantics: %v\n engine returned:      %v", ref.Rows, got)
	}
	return "", ""
}

func (w *c01Worker) Item(idx int, emit func(vf.Violation), st sweep.Stats, sample func(string)) {
	if idx >= len(w.progs) {
		// a batch of ill-typed programs: Compile must reject each
		b := idx - len(w.progs)
		for i := b * 200; i < (b+1)*200 && i < len(w.ill); i++ {
			p := w.ill[i]
			_, err := w.gis[2].Compiler().Compile(refsem.Stmts(p), nil)
			st["ill_typed_checked"]++
			if err == nil {
				emit(vf.Violation{Sig: "ill-typed-accepted|" + opSeq(p), Detail: "ill-typed traversal " + refsem.ProgName(p) + " was compiled without an error", Replay: map[string]any{"program": refsem.ProgName(p)}})
			}
		}
		return
	}
	p := w.progs[idx]
	st["programs"]++
	nonEmpty := false
	for fi := range w.fixtures {
		dir, detail := w.compare(p, fi, st)
		if dir == "" {
			continue
		}
		// report only prefix-minimal disagreements
		minimal := true
		for k := 1; k < len(p); k++ {
			if ty, _, _ := refsem.TypeOf(p[:k]); ty != refsem.WellTyped {
				continue
			}
			if d, _ := w.compare(p[:k], fi, sweep.Stats{}); d != "" {
				minimal = false
				break
			}
		}
		if !minimal {
			st["non_minimal_disagreements"]++
			continue
		}
		emit(vf.Violation{Sig: opSeq(p) + "|" + dir,
			Detail: fmt.Sprintf("%s on %s: %s", refsem.ProgName(p), w.fixtures[fi].Name, detail),
			Replay: map[string]any{"program": refsem.ProgName(p), "fixture": w.fixtures[fi].Name, "index": idx}})
	}
	_ = nonEmpty
	if idx%997 == 0 {
		sample(refsem.ProgName(p))
	}
}

// C01 runs the check.
func C01(tier string, args []string) int {
	w := newC01Worker(tier)
	if sweep.IsWorker(args) {
		return sweep.RunWorker(w, args)
	}
	run := vf.NewRun("C01", tier, "exploration")
	budget := 8 * time.Minute
	if tier == "thorough" {
		budget = 40 * time.Minute
	}
	res := sweep.Run(run, "C01", tier, w, time.Now().Add(budget), 120*time.Second, func(idx int, stderr string, hang bool) {
		kind := "crash"
		if hang {
			kind = "hang"
		}
		site := sweep.PanicSite(stderr)
		desc := w.Describe(idx)
		sig := kind + "|" + site
		if idx < len(w.progs) {
			sig = kind + "|" + opSeq(w.progs[idx]) + "|" + site
		}
		run.Report(vf.Violation{Sig: sig, Detail: fmt.Sprintf("worker %s while running %s: %s", kind, desc, site), Replay: map[string]any{"program": desc, "index": idx}})
	})
	run.Coverage["evaluations"] = res.Stats["runs"] + res.Stats["ill_typed_checked"]
	run.Coverage["programs_well_typed"] = len(w.progs)
	run.Coverage["programs_ill_typed"] = len(w.ill)
	run.Coverage["programs_run"] = res.Stats["programs"]
	run.Coverage["runs"] = res.Stats["runs"]
	run.Coverage["distinct_nontrivial"] = res.Stats["runs_with_rows"]
	run.Coverage["undefined_by_documentation_skipped"] = res.Stats["undefined_by_documentation"]
	run.Coverage["undecided_timeouts"] = res.Stats["undecided_timeouts"]
	run.Coverage["non_minimal_disagreements"] = res.Stats["non_minimal_disagreements"]
	run.Coverage["worker_crashes"] = res.Crashes
	run.Coverage["worker_hangs"] = res.Hangs
	run.Coverage["fixtures"] = len(w.fixtures)
	run.Coverage["exhaustive"] = !res.DeadlineHit && res.Done >= w.N()
	run.Coverage["rule"] = "every well-typed statement sequence up to the length bound over the alphabet (6 starts + 60 step instances) x 6 fixture graphs; every ill-typed sequence up to length 3 must be rejected; non-trivial = a run that returned at least one row (all runs are distinct program x graph pairs)"
	s := res.Samples
	if len(s) == 0 {
		s = []string{refsem.ProgName(w.progs[len(w.progs)/2])}
	}
	run.Coverage["samples"] = s
	run.Assume = []string{
		"reference interpreter harness/refsem (conventions in DESIGN.md appendix B) is the reading of the documentation; combinations it leaves undefined are skipped and counted",
		"truncation steps (limit/skip/range) are judged only at the end of a program or before count(): row count by bound arithmetic and rows a sub-multiset of the untruncated result",
		"rows compared as multisets of canonical JSON; store is kvgraph over memkv; temporary stores of distinct() are memkv",
		"the 'randomly beyond the bound' half of the quantifier is not done",
	}
	return run.Finish()
}
