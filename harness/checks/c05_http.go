package checks

// C05, part H: the HTTP gateway as server.Serve() itself wires it. The other two transports of
// this check are assembled by the harness from the same building blocks Serve() uses; a mistake in
// Serve()'s own wiring (a service whose gateway client is built without an interceptor) is only
// visible on a served port. The real GripServer is started on two free localhost ports per policy,
// every method that has an HTTP route in gripql/gripql.proto (read at run time, so a new RPC is
// included automatically) is called with every credential for both graphs, and the status must be
// 401/403 exactly when the reference policy denies the call; a denied call must not change the store.

import (
	"bytes"
	"context"
	"fmt"
	"io"
	"net"
	"net/http"
	"os"
	"path/filepath"
	"regexp"
	"strings"
	"time"

	"github.com/bmeg/grip/accounts"
	"github.com/bmeg/grip/config"
	"github.com/bmeg/grip/gdbi"
	"github.com/bmeg/grip/kvgraph"
	"github.com/bmeg/grip/server"

	"verif/harness/memkv"
	"verif/harness/vf"
)

type c05Route struct {
	Service, Name, Verb, Path string
}

// c05Routes parses the google.api.http annotations of the service definitions.
func c05Routes() (map[string]c05Route, error) {
	data, err := os.ReadFile(filepath.Join(vf.Repo(), "gripql", "gripql.proto"))
	if err != nil {
		return nil, err
	}
	src := string(data)
	out := map[string]c05Route{}
	svcRe := regexp.MustCompile(`(?m)^service\s+(\w+)\s*\{`)
	rpcRe := regexp.MustCompile(`(?s)rpc\s+(\w+)\s*\([^)]*\)\s*returns\s*\([^)]*\)\s*\{\s*option\s*\(google\.api\.http\)\s*=\s*\{\s*(get|post|delete|put|patch)\s*:\s*"([^"]+)"`)
	svcs := svcRe.FindAllStringSubmatchIndex(src, -1)
	for i, s := range svcs {
		end := len(src)
		if i+1 < len(svcs) {
			end = svcs[i+1][0]
		}
		name := src[s[2]:s[3]]
		for _, m := range rpcRe.FindAllStringSubmatch(src[s[0]:end], -1) {
			out["/gripql."+name+"/"+m[1]] = c05Route{Service: name, Name: m[1], Verb: strings.ToUpper(m[2]), Path: m[3]}
		}
	}
	return out, nil
}

func freePort() string {
	l, err := net.Listen("tcp", "127.0.0.1:0")
	if err != nil {
		return "0"
	}
	defer l.Close()
	return fmt.Sprint(l.Addr().(*net.TCPAddr).Port)
}

func c05Body(name, graph string) string {
	switch name {
	case "Traversal", "Submit", "SearchJobs":
		return `{"query":[{"v":[]}]}`
	case "ResumeJob":
		return `{"srcId":"nojob","query":[{"v":[]}]}`
	case "AddVertex":
		return `{"gid":"hx","label":"P"}`
	case "AddEdge":
		return `{"gid":"he","label":"x","from":"x","to":"x"}`
	case "AddIndex":
		return `{"field":"n"}`
	case "AddSchema", "AddMapping":
		return `{"vertices":[],"edges":[]}`
	case "BulkAdd":
		return `{"graph":"` + graph + `","vertex":{"gid":"hb","label":"P"}}` + "\n"
	}
	return "{}"
}

// c05HTTP runs part H; it returns the number of calls made.
func c05HTTP(run *vf.Run, dir string, policies []c05Policy, methods []c05Method, creds []c05Cred) (int, []string) {
	routes, err := c05Routes()
	if err != nil || len(routes) == 0 {
		run.Report(vf.Violation{Sig: "http|harness-error:no-routes", Detail: fmt.Sprint("cannot read the HTTP routes from gripql.proto: ", err), Replay: nil})
		return 0, nil
	}
	calls := 0
	var samples []string
	noRoute := map[string]bool{}
	for _, pol := range policies {
		kv := memkv.New()
		db := kvgraph.NewKVGraph(kv)
		for _, g := range []string{"g1", "g2"} {
			db.AddGraph(g)
			gi, _ := db.Graph(g)
			gi.AddVertex([]*gdbi.Vertex{{ID: "x", Label: "P", Data: map[string]any{"n": 1.0}, Loaded: true}})
		}
		conf := config.DefaultConfig()
		conf.Default = "mem"
		conf.Server.WorkDir = filepath.Join(dir, "http-"+pol.Name)
		conf.Server.HTTPPort, conf.Server.RPCPort = freePort(), freePort()
		conf.Server.EnablePlugins = true
		if !pol.None {
			mf := filepath.Join(dir, pol.Name+".http.model.conf")
			pf := filepath.Join(dir, pol.Name+".http.policy.csv")
			os.WriteFile(mf, []byte(c05Model), 0o644)
			var sb strings.Builder
			for _, r := range pol.Rules {
				fmt.Fprintf(&sb, "p, %s, %s, %s\n", r[0], r[1], r[2])
			}
			os.WriteFile(pf, []byte(sb.String()), 0o644)
			conf.Server.Accounts = accounts.Config{
				Auth:   &accounts.AuthConfig{Basic: &accounts.BasicAuth{{User: "u1", Password: "pw1"}, {User: "u2", Password: "pw2"}}},
				Access: &accounts.AccessConfig{Casbin: &accounts.CasbinAccess{Model: mf, Policy: pf}},
			}
		}
		var srv *server.GripServer
		quietStdout(func() { srv, err = server.NewGripServer(conf, dir, map[string]gdbi.GraphDB{"mem": db}) })
		if err != nil {
			run.Report(vf.Violation{Sig: "http|harness-error:server-start", Detail: err.Error(), Replay: nil})
			continue
		}
		ctx, cancel := context.WithCancel(context.Background())
		served := make(chan error, 1)
		go func() { served <- srv.Serve(ctx) }()
		base := "http://127.0.0.1:" + conf.Server.HTTPPort
		up := false
		for i := 0; i < 200 && !up; i++ {
			if c, err := net.DialTimeout("tcp", "127.0.0.1:"+conf.Server.HTTPPort, 100*time.Millisecond); err == nil {
				c.Close()
				up = true
			} else {
				time.Sleep(25 * time.Millisecond)
			}
		}
		if !up {
			cancel()
			run.Report(vf.Violation{Sig: "http|harness-error:server-did-not-listen", Detail: "policy " + pol.Name, Replay: nil})
			continue
		}
		client := &http.Client{Timeout: 15 * time.Second}
		for _, m := range methods {
			rt, ok := routes[m.Full]
			if !ok {
				noRoute[m.Full] = true
				continue
			}
			class := c05OpClass(m)
			for _, cred := range creds {
				for gi, g := range []string{"g1", "g2"} {
					if m.ClientStream && gi > 0 {
						continue // the stream names its graphs per element; one call per credential
					}
					path := rt.Path
					reqGraph := "*"
					if strings.Contains(path, "{graph}") {
						reqGraph = g
					}
					path = strings.NewReplacer("{graph}", g, "{id}", "x", "{label}", "P", "{field}", "n", "{name}", "p").Replace(path)
					if m.Name == "AddGraph" {
						path = strings.Replace(path, "/"+g, "/"+g+"new", 1)
						reqGraph = g + "new"
					}
					var body io.Reader
					if rt.Verb == "POST" || rt.Verb == "PUT" {
						body = bytes.NewBufferString(c05Body(m.Name, g))
					}
					before := kv.DumpString()
					req, _ := http.NewRequest(rt.Verb, base+path, body)
					req.Header.Set("Content-Type", "application/json")
					if cred.Basic != "" {
						req.Header.Set("Authorization", cred.Basic)
					}
					var want bool // must the call be denied
					switch {
					case pol.None:
						want = false
					case cred.User == "":
						want = true
					case m.ClientStream:
						want = false // an authenticated bulk stream is accepted; its elements are filtered one by one
					default:
						want = !pol.grants(cred.User, reqGraph, class)
					}
					cl := client
					if m.ClientStream && want {
						// a refused bulk upload is known never to answer through the gateway shim: do not wait long for it
						cl = &http.Client{Timeout: 1200 * time.Millisecond}
					}
					resp, err := cl.Do(req)
					calls++
					rep := map[string]any{"policy": pol.Name, "method": m.Full, "http": rt.Verb + " " + path, "credentials": cred.Name}
					if err != nil {
						kind := "no-answer"
						if want {
							kind = "denied-call-never-answers"
						}
						run.Report(vf.Violation{Sig: fmt.Sprintf("%s|http|%s", m.Full, kind), Detail: fmt.Sprintf("policy %s creds %s: %s %s: %v", pol.Name, cred.Name, rt.Verb, path, err), Replay: rep})
						if kv.DumpString() != before {
							run.Report(vf.Violation{Sig: fmt.Sprintf("%s|http|denied-call-changed-the-store", m.Full), Detail: fmt.Sprintf("policy %s creds %s: %s %s (no answer) changed the stored data", pol.Name, cred.Name, rt.Verb, path), Replay: rep})
						}
						continue
					}
					io.Copy(io.Discard, resp.Body)
					resp.Body.Close()
					denied := resp.StatusCode == http.StatusUnauthorized || resp.StatusCode == http.StatusForbidden
					switch {
					case want && !denied:
						kind := "handler-ran-without-grant"
						if cred.User == "" {
							kind = "unauthenticated-caller-reached-handler"
						}
						run.Report(vf.Violation{Sig: fmt.Sprintf("%s|http|%s", m.Full, kind), Detail: fmt.Sprintf("policy %s creds %s: %s %s answered %d although the policy gives %q no %q on %s", pol.Name, cred.Name, rt.Verb, path, resp.StatusCode, cred.User, class, reqGraph), Replay: rep})
					case !want && denied:
						run.Report(vf.Violation{Sig: fmt.Sprintf("%s|http|granted-but-blocked", m.Full), Detail: fmt.Sprintf("policy %s creds %s: %s %s answered %d although the policy grants %q on %s", pol.Name, cred.Name, rt.Verb, path, resp.StatusCode, class, reqGraph), Replay: rep})
					}
					if (want || (m.ClientStream && !pol.None && !pol.grants(cred.User, g, "write"))) && kv.DumpString() != before {
						run.Report(vf.Violation{Sig: fmt.Sprintf("%s|http|denied-call-changed-the-store", m.Full), Detail: fmt.Sprintf("policy %s creds %s: %s %s (status %d) changed the stored data", pol.Name, cred.Name, rt.Verb, path, resp.StatusCode), Replay: rep})
					}
					if len(samples) < 3 && calls%211 == 0 {
						samples = append(samples, fmt.Sprintf("served HTTP: policy %s, %s, %s %s -> %d", pol.Name, cred.Name, rt.Verb, path, resp.StatusCode))
					}
				}
			}
		}
		cancel()
		select {
		case <-served:
		case <-time.After(5 * time.Second):
		}
	}
	var nr []string
	for k := range noRoute {
		nr = append(nr, k)
	}
	run.Coverage["http_methods_without_route"] = nr
	run.Coverage["http_calls"] = calls
	run.Coverage["http_routes"] = len(routes)
	return calls, samples
}
