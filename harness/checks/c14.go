package checks

// C14: the MongoDB compiler preserves typing and filter meaning.
//
// (1) Typing, bounded-exhaustive: every statement sequence up to a length
// bound over the steps the Mongo compiler supports is compiled by
// mongo.NewCompiler (compile only, no database) and by core.NewCompiler;
// accept/reject, result type and mark types must agree.
// (2) Filter meaning, exhaustive product: for every has-expression of a
// condition grid and of nesting <= 2 over agreeing atoms, the $match document
// emitted by the real convertHasExpression is evaluated by the mongoeval
// interpreter (standard MongoDB semantics) on scalar documents and must select
// exactly the documents kept by logic.MatchesHasExpression.

import (
	"fmt"
	"sort"
	"strings"

	"github.com/bmeg/grip/engine/core"
	"github.com/bmeg/grip/gdbi"
	"github.com/bmeg/grip/gripql"
	"github.com/bmeg/grip/mongo"

	"verif/harness/mongoeval"
	"verif/harness/progenum"
	"verif/harness/refsem"
	"verif/harness/vf"
)

func compileSafe(c gdbi.Compiler, stmts []*gripql.GraphStatement) (p gdbi.Pipeline, err error, pan string) {
	defer func() {
		if r := recover(); r != nil {
			pan = fmt.Sprint(r)
		}
	}()
	p, err = c.Compile(stmts, nil)
	return
}

func marksString(m map[string]gdbi.DataType) string {
	var s []string
	for k, v := range m {
		s = append(s, k+":"+v.String())
	}
	sort.Strings(s)
	return strings.Join(s, ",")
}

// C14 runs the check.
func C14(tier string) int {
	run := vf.NewRun("C14", tier, "exploration")
	thorough := tier == "thorough"
	mc := mongo.NewCompiler(&mongo.Graph{})
	cc := core.NewCompiler(nil)
	// ---- (1) typing
	alpha := progenum.Alphabet(false)
	term := &gripql.Aggregate{Name: "t", Aggregation: &gripql.Aggregate_Term{Term: &gripql.TermAggregation{Field: "s"}}}
	aggStmt := gripql.NewQuery().Aggregate([]*gripql.Aggregate{term}).Statements[0]
	type prog struct {
		steps []refsem.Step
		extra []*gripql.GraphStatement // appended raw statements (aggregate)
	}
	maxLen := 4
	if thorough {
		maxLen = 5
	}
	typing, accepted := 0, 0
	var samples []string
	level := [][]refsem.Step{}
	for _, s := range progenum.Starts() {
		level = append(level, []refsem.Step{s})
	}
	// also sequences that do not begin with a start
	for _, s := range alpha[:6] {
		level = append(level, []refsem.Step{s})
	}
	check := func(name string, stmts []*gripql.GraphStatement, opseq string) {
		mp, merr, mpan := compileSafe(mc, stmts)
		cp, cerr, cpan := compileSafe(cc, stmts)
		typing++
		rep := map[string]any{"program": name}
		if mpan != "" {
			run.Report(vf.Violation{Sig: "typing|mongo-compiler-panic|" + lastOpName(opseq), Detail: fmt.Sprintf("%s: mongo compiler panicked: %s", name, mpan), Replay: rep})
			return
		}
		if cpan != "" {
			return // the core compiler's crashes are C06's business
		}
		if (merr == nil) != (cerr == nil) {
			who := "mongo accepts, core rejects"
			if merr != nil {
				who = "core accepts, mongo rejects"
			}
			run.Report(vf.Violation{Sig: "typing|acceptance|" + who + "|" + lastOpName(opseq), Detail: fmt.Sprintf("%s: %s (mongo: %v; core: %v)", name, who, merr, cerr), Replay: rep})
			return
		}
		if merr != nil {
			return
		}
		accepted++
		if mp.DataType() != cp.DataType() {
			run.Report(vf.Violation{Sig: fmt.Sprintf("typing|result-type|mongo=%s|core=%s|%s", mp.DataType(), cp.DataType(), lastOpName(opseq)), Detail: fmt.Sprintf("%s: mongo says %s, core says %s", name, mp.DataType(), cp.DataType()), Replay: rep})
		}
		if marksString(mp.MarkTypes()) != marksString(cp.MarkTypes()) {
			run.Report(vf.Violation{Sig: "typing|mark-types|" + lastOpName(opseq), Detail: fmt.Sprintf("%s: mongo marks {%s}, core marks {%s}", name, marksString(mp.MarkTypes()), marksString(cp.MarkTypes())), Replay: rep})
		}
		if len(samples) < 5 && typing%4001 == 0 {
			samples = append(samples, name)
		}
	}
	// depth-first (memory proportional to the length bound, not to the number of programs); the last level
	// is thinned by a fixed stride: 1 in 5 of the length-4 programs (quick), 1 in 10 of the length-5 programs
	// (thorough); everything shorter is complete
	stride := 5
	if thorough {
		stride = 10
	}
	lastCtr := 0
	var rec func(p []refsem.Step, l int)
	rec = func(p []refsem.Step, l int) {
		// marks defined before use (property scope)
		marks := map[string]bool{}
		for _, s := range p {
			if s.Op == "as" {
				marks[s.Strs[0]] = true
			}
			if s.Op == "select" {
				for _, m := range s.Strs {
					if !marks[m] {
						return
					}
				}
			}
		}
		check(refsem.ProgName(p), refsem.Stmts(p), opSeq(p))
		check(refsem.ProgName(p)+".aggregate(term)", append(refsem.Stmts(p), aggStmt), opSeq(p)+".aggregate")
		if l >= maxLen {
			return
		}
		for _, s := range alpha {
			if !thorough && l >= 3 && (s.Op == "has" || s.Op == "hasKey" || s.Op == "hasId") && len(s.Strs) != 1 && s.Has == nil {
				continue
			}
			if l == maxLen-1 {
				lastCtr++
				if lastCtr%stride != 1 {
					continue
				}
			}
			rec(append(append(make([]refsem.Step, 0, len(p)+1), p...), s), l+1)
		}
	}
	for _, p := range level {
		rec(p, 1)
	}

	// ---- (2) filter meaning
	vals := c08Values()
	var docs []struct {
		name string
		doc  map[string]any
		trav gdbi.Traveler
	}
	for _, v := range vals {
		k := kindOf(v.Missing, v.V)
		if k == "list" || k == "map" {
			continue // scalar documents only
		}
		data := map[string]any{}
		if !v.Missing {
			data["f"] = v.V
		}
		el := &gdbi.DataElement{ID: v.Name, Label: "L", Data: data, Loaded: true}
		docs = append(docs, struct {
			name string
			doc  map[string]any
			trav gdbi.Traveler
		}{v.Name, map[string]any{"_id": v.Name, "label": "L", "data": data}, (&gdbi.BaseTraveler{}).AddCurrent(el)})
	}
	filterEvals := 0
	distinct := map[string]bool{}
	evalBoth := func(e *gripql.HasExpression) (core []string, mg []string, mErr string) {
		var filter map[string]any
		func() {
			defer func() {
				if r := recover(); r != nil {
					mErr = "panic in convertHasExpression: " + fmt.Sprint(r)
				}
			}()
			filter = map[string]any(mongo.VerifConvertHasExpression(e))
		}()
		for _, d := range docs {
			if ok, _ := matchSafe(d.trav, e); ok {
				core = append(core, d.name)
			}
			if mErr == "" {
				m, err := mongoeval.Match(filter, d.doc)
				if err != nil {
					mErr = "mongo would refuse the filter: " + err.Error()
				} else if m {
					mg = append(mg, d.name)
				}
			}
		}
		filterEvals += len(docs)
		return
	}
	ops := []gripql.Condition{gripql.Condition_EQ, gripql.Condition_NEQ, gripql.Condition_GT, gripql.Condition_GTE, gripql.Condition_LT, gripql.Condition_LTE,
		gripql.Condition_INSIDE, gripql.Condition_OUTSIDE, gripql.Condition_BETWEEN, gripql.Condition_WITHIN, gripql.Condition_WITHOUT, gripql.Condition_CONTAINS}
	docKind := func(name string) string {
		for _, v := range vals {
			if v.Name == name {
				return kindOf(v.Missing, v.V)
			}
		}
		return "?"
	}
	var agreeing []*gripql.HasExpression
	for _, op := range ops {
		for _, arg := range c08Args(op) {
			e := mkCond(op, "f", arg)
			c, m, merr := evalBoth(e)
			rep := map[string]any{"expression": refsem.HasString(e)}
			if c14Degenerate(op, arg) {
				// arguments outside the documented shape: one class per operator
				if merr != "" || len(symDiff(c, m)) > 0 {
					how := "selects-differently"
					if merr != "" {
						how = strings.SplitN(merr, ":", 2)[0]
					}
					run.Report(vf.Violation{Sig: fmt.Sprintf("filter|%s|degenerate-argument|%s", op, strings.ReplaceAll(how, " ", "-")),
						Detail: fmt.Sprintf("has(%s): core keeps %v; emitted filter: %s %v", refsem.HasString(e), c, merr, m), Replay: rep})
				}
				continue
			}
			if merr != "" {
				cls := "refused"
				if strings.HasPrefix(merr, "panic") {
					cls = "panic"
				}
				run.Report(vf.Violation{Sig: fmt.Sprintf("filter|%s|arg=%s|%s", op, argKind(arg), cls), Detail: fmt.Sprintf("has(%s): %s; the core engine keeps %v", refsem.HasString(e), merr, c), Replay: rep})
				continue
			}
			diff := symDiff(c, m)
			if len(diff) == 0 {
				if len(agreeing) < 4 && len(c) > 0 && len(c) < len(docs) && (op == gripql.Condition_EQ || op == gripql.Condition_GT || op == gripql.Condition_WITHIN) {
					agreeing = append(agreeing, e)
				}
				distinct[fmt.Sprintf("%s|%s|agree", op, argKind(arg))] = true
				continue
			}
			for _, name := range diff {
				distinct[fmt.Sprintf("%s|%s|%s", op, argKind(arg), docKind(name))] = true
				run.Report(vf.Violation{Sig: fmt.Sprintf("filter|%s|value=%s|arg=%s|core-keeps=%v", op, docKind(name), argKind(arg), contains(c, name)),
					Detail: fmt.Sprintf("has(%s) on f=%s: core engine keeps %v, the emitted filter %v selects %v", refsem.HasString(e), name, c, mongo.VerifConvertHasExpression(e), m), Replay: rep})
			}
		}
	}
	// boolean layer. The Mongo compiler pushes negations down with operator-specific code, so every
	// operator must occur under not()/and()/or(): one or two atoms per operator (documented argument
	// shape, selecting some but not all documents). An atom need not agree with the core engine on every
	// document (the known divergences on non-numeric operands are atom-level findings); a composite
	// expression is compared on exactly those documents on which all of its atoms agree, which isolates
	// what and/or/not add.
	boolN := 0
	type c14Atom struct {
		e      *gripql.HasExpression
		agrees map[string]bool // document name -> core and emitted filter agree on the atom
	}
	var atoms []c14Atom
	perOp := map[gripql.Condition]int{}
	for _, op := range ops {
		for _, arg := range c08Args(op) {
			if c14Degenerate(op, arg) || perOp[op] >= 2 {
				continue
			}
			e := mkCond(op, "f", arg)
			c, m, merr := evalBoth(e)
			if merr != "" || len(c) == 0 || len(c) == len(docs) {
				continue
			}
			a := c14Atom{e: e, agrees: map[string]bool{}}
			bad := symDiff(c, m)
			n := 0
			for _, d := range docs {
				if !contains(bad, d.name) {
					a.agrees[d.name] = true
					n++
				}
			}
			if n < 3 {
				continue
			}
			perOp[op]++
			atoms = append(atoms, a)
		}
	}
	type c14Expr struct {
		e     *gripql.HasExpression
		atoms []int
	}
	var exprs []c14Expr
	core4 := []int{}
	for i := range atoms {
		if len(core4) < 4 && (i == 0 || atoms[i].e.GetCondition().GetCondition() != atoms[i-1].e.GetCondition().GetCondition()) {
			core4 = append(core4, i)
		}
	}
	var lvl1 []c14Expr
	for i, a := range atoms {
		lvl1 = append(lvl1, c14Expr{gripql.Not(a.e), []int{i}}, c14Expr{gripql.And(a.e), []int{i}}, c14Expr{gripql.Or(a.e), []int{i}})
		for _, j := range core4 {
			lvl1 = append(lvl1, c14Expr{gripql.And(a.e, atoms[j].e), []int{i, j}}, c14Expr{gripql.Or(a.e, atoms[j].e), []int{i, j}})
		}
	}
	exprs = append(exprs, lvl1...)
	for _, x := range lvl1 {
		exprs = append(exprs, c14Expr{gripql.Not(x.e), x.atoms})
		for _, j := range core4 {
			exprs = append(exprs, c14Expr{gripql.And(x.e, atoms[j].e), append(append([]int{}, x.atoms...), j)}, c14Expr{gripql.Or(atoms[j].e, x.e), append(append([]int{}, x.atoms...), j)})
		}
	}
	if thorough {
		n := len(exprs)
		for _, x := range exprs[len(lvl1):n] {
			exprs = append(exprs, c14Expr{gripql.Not(x.e), x.atoms})
			for _, j := range core4[:2] {
				exprs = append(exprs, c14Expr{gripql.And(x.e, atoms[j].e), append(append([]int{}, x.atoms...), j)})
			}
		}
	}
	exprs = append(exprs, c14Expr{gripql.And(), nil}, c14Expr{gripql.Or(), nil})
	for _, x := range exprs {
		c, m, merr := evalBoth(x.e)
		boolN++
		rep := map[string]any{"expression": refsem.HasString(x.e)}
		shape := boolShape(x.e)
		if merr != "" {
			run.Report(vf.Violation{Sig: "bool|" + shape + "|refused-or-panic", Detail: fmt.Sprintf("has(%s): %s; core keeps %v", refsem.HasString(x.e), merr, c), Replay: rep})
			continue
		}
		var diff []string
		for _, name := range symDiff(c, m) {
			ok := true
			for _, ai := range x.atoms {
				if !atoms[ai].agrees[name] {
					ok = false
				}
			}
			if ok {
				diff = append(diff, name)
			}
		}
		if len(diff) > 0 {
			run.Report(vf.Violation{Sig: "bool|" + shape + "|selects-differently", Detail: fmt.Sprintf("has(%s): on documents %v (on which every atom of the expression is translated faithfully) core keeps %v, emitted filter %v selects %v", refsem.HasString(x.e), diff, c, mongo.VerifConvertHasExpression(x.e), m), Replay: rep})
		}
	}
	run.Coverage["boolean_atoms"] = len(atoms)
	run.Coverage["evaluations"] = typing + filterEvals
	run.Coverage["typing_programs"] = typing
	run.Coverage["typing_accepted_by_both"] = accepted
	run.Coverage["filter_document_evaluations"] = filterEvals
	run.Coverage["boolean_expressions"] = boolN
	run.Coverage["scalar_documents"] = len(docs)
	run.Coverage["distinct_nontrivial"] = len(distinct) + accepted
	run.Coverage["exhaustive"] = true
	run.Coverage["rule"] = "typing: every sequence up to the length bound over starts + 60 step instances (+ a trailing aggregate), marks defined before use (the last level is thinned by a fixed stride: 1 in 5 at length 4 quick, 1 in 10 at length 5 thorough; all shorter programs are complete); filters: 12 operators x all argument shapes of the C08 grid x 10 scalar documents, then and/or/not expressions of nesting <=2 (3) in which every operator occurs as an atom (<=2 atoms per operator), compared on the documents on which all atoms of the expression are translated faithfully"
	if len(samples) == 0 {
		samples = []string{"V().as(m1).outE(x).select(m1)"}
	}
	run.Coverage["samples"] = samples
	run.Assume = []string{
		"mongoeval (harness/mongoeval) implements standard MongoDB $match semantics for scalars: type-bracketed comparisons, null equals missing, $ne/$not match missing fields, $in needs an array, $and/$or need a nonempty array",
		"the core engine's own evaluation (logic.MatchesHasExpression) is the reference for filter meaning, as the property states; the core compiler is the reference for typing",
		"convertHasExpression is reached through the verif-tagged overlay file engines/hooks/mongo_export_verif.go; mongo.NewCompiler(&mongo.Graph{}) compiles without a database",
	}
	return run.Finish()
}

// c14Degenerate: the argument does not have the documented shape (a pair of
// bounds for inside/outside/between, a list for within/without).
func c14Degenerate(op gripql.Condition, arg any) bool {
	l, isList := arg.([]any)
	switch op {
	case gripql.Condition_INSIDE, gripql.Condition_OUTSIDE, gripql.Condition_BETWEEN:
		return !isList || len(l) != 2
	case gripql.Condition_WITHIN, gripql.Condition_WITHOUT:
		return !isList
	}
	return false
}

func lastOpName(seq string) string {
	p := strings.Split(seq, ".")
	return p[len(p)-1]
}

func boolShape(e *gripql.HasExpression) string {
	switch x := e.Expression.(type) {
	case *gripql.HasExpression_And:
		var s []string
		for _, c := range x.And.Expressions {
			s = append(s, boolShape(c))
		}
		return "and(" + strings.Join(s, ",") + ")"
	case *gripql.HasExpression_Or:
		var s []string
		for _, c := range x.Or.Expressions {
			s = append(s, boolShape(c))
		}
		return "or(" + strings.Join(s, ",") + ")"
	case *gripql.HasExpression_Not:
		return "not(" + boolShape(x.Not) + ")"
	case *gripql.HasExpression_Condition:
		return x.Condition.GetCondition().String()
	}
	return "c"
}
