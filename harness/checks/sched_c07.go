//go:build vsched

package checks

// C07: traversals terminate for any data volume and stop when cancelled.
//
// Real compiled pipelines over the real (instrumented) kvgraph on memkv, a
// collector goroutine as the client, under the controlled scheduler. Regime (a):
// every literal channel capacity is scaled down (order preserving) and the
// graph size N sweeps from 0 past three times the largest scaled capacity;
// regime (b): real capacities with N around 100 / 1000 / 5000 on the default
// schedule plus a few deviations. Deadlock = "no enabled goroutine", decided
// exactly, never by a timer. The temporary-storage clause is decided by an
// unscheduled sweep through the unmodified pipeline.Run with a private work
// directory.

import (
	"context"
	"fmt"
	"os"
	"path/filepath"
	"time"

	"github.com/bmeg/grip/engine/pipeline"
	"github.com/bmeg/grip/gdbi"
	"github.com/bmeg/grip/gripql"
	"github.com/bmeg/grip/kvgraph"
	vs "github.com/bmeg/grip/verifsched"

	"verif/harness/memkv"
	"verif/harness/qrun"
	"verif/harness/sweep"
	"verif/harness/vf"
)

func init() {
	Registry["C07"] = C07
	Registry["C07tmp"] = func(tier string, args []string) int {
		if sweep.IsWorker(args) {
			return sweep.RunWorker(newC07TmpWorker(), args)
		}
		return 2
	}
}

func starGraph(n int) gdbi.GraphInterface {
	db := kvgraph.NewKVGraph(memkv.New())
	db.AddGraph("g")
	gi, _ := db.Graph("g")
	vsx := []*gdbi.Vertex{{ID: "c", Label: "C", Data: map[string]any{"n": 0.0}, Loaded: true}}
	var es []*gdbi.Edge
	for i := 0; i < n; i++ {
		var nv any = float64(i % 7)
		if i == 1 {
			nv = "n/a" // one early row whose aggregated field is present but not a number
		}
		vsx = append(vsx, &gdbi.Vertex{ID: fmt.Sprintf("l%05d", i), Label: "L", Data: map[string]any{"n": nv}, Loaded: true})
		es = append(es, &gdbi.Edge{ID: fmt.Sprintf("e%05d", i), From: "c", To: fmt.Sprintf("l%05d", i), Label: "x", Loaded: true})
	}
	gi.AddVertex(vsx)
	if len(es) > 0 {
		gi.AddEdge(es)
	}
	return gi
}

type c07Prog struct {
	Name  string
	Stmts func(k int) []*gripql.GraphStatement
	Rows  func(n, k int) int // expected number of rows on star(n); -1 = not checked
}

func c07Programs() []c07Prog {
	term := &gripql.Aggregate{Name: "t", Aggregation: &gripql.Aggregate_Term{Term: &gripql.TermAggregation{Field: "n"}}}
	cnt := &gripql.Aggregate{Name: "c", Aggregation: &gripql.Aggregate_Count{Count: &gripql.CountAggregation{}}}
	hist := &gripql.Aggregate{Name: "h", Aggregation: &gripql.Aggregate_Histogram{Histogram: &gripql.HistogramAggregation{Field: "n", Interval: 2}}}
	pct := &gripql.Aggregate{Name: "p", Aggregation: &gripql.Aggregate_Percentile{Percentile: &gripql.PercentileAggregation{Field: "n", Percents: []float64{50, 90}}}}
	fld := &gripql.Aggregate{Name: "f", Aggregation: &gripql.Aggregate_Field{Field: &gripql.FieldAggregation{Field: "$._data"}}}
	typ := &gripql.Aggregate{Name: "y", Aggregation: &gripql.Aggregate_Type{Type: &gripql.TypeAggregation{Field: "n"}}}
	min := func(a, b int) int {
		if a < b {
			return a
		}
		return b
	}
	return []c07Prog{
		{"V()", func(k int) []*gripql.GraphStatement { return gripql.V().Statements }, func(n, k int) int { return n + 1 }},
		{"V().out()", func(k int) []*gripql.GraphStatement { return gripql.V().Out().Statements }, func(n, k int) int { return n }},
		{"V().both()", func(k int) []*gripql.GraphStatement { return gripql.V().Both().Statements }, func(n, k int) int { return 2 * n }},
		{"V().bothE()", func(k int) []*gripql.GraphStatement { return gripql.V().BothE().Statements }, func(n, k int) int { return 2 * n }},
		{"V().out().both()", func(k int) []*gripql.GraphStatement { return gripql.V().Out().Both().Statements }, func(n, k int) int { return n }},
		{"E().both()", func(k int) []*gripql.GraphStatement { return gripql.E().Both().Statements }, func(n, k int) int { return 2 * n }},
		{"V().aggregate(term,count,histogram)", func(k int) []*gripql.GraphStatement {
			return gripql.V().Aggregate([]*gripql.Aggregate{term, cnt, hist}).Statements
		}, func(n, k int) int { return -1 }},
		{"V().aggregate(percentile,field,type)", func(k int) []*gripql.GraphStatement {
			return gripql.V().Aggregate([]*gripql.Aggregate{pct, fld, typ}).Statements
		}, func(n, k int) int { return -1 }},
		{"V().out().aggregate(percentile)", func(k int) []*gripql.GraphStatement {
			return gripql.V().Out().Aggregate([]*gripql.Aggregate{pct}).Statements
		}, func(n, k int) int { return -1 }},
		{"V().distinct()", func(k int) []*gripql.GraphStatement { return gripql.V().Distinct().Statements }, func(n, k int) int { return n + 1 }},
		{"V().limit(k)", func(k int) []*gripql.GraphStatement { return gripql.V().Limit(uint32(k)).Statements }, func(n, k int) int { return min(k, n+1) }},
		{"V().out().limit(k)", func(k int) []*gripql.GraphStatement { return gripql.V().Out().Limit(uint32(k)).Statements }, func(n, k int) int { return min(k, n) }},
		{"V().range(1,k)", func(k int) []*gripql.GraphStatement { return gripql.V().Range(1, int32(k)).Statements }, func(n, k int) int {
			if k <= 1 {
				return 0
			}
			return min(k, n+1) - 1
		}},
		{"V().both().limit(k)", func(k int) []*gripql.GraphStatement { return gripql.V().Both().Limit(uint32(k)).Statements }, func(n, k int) int { return min(k, 2*n) }},
		// starts that the planner rewrites into a label-index scan (LookupVertsIndex over VertexLabelScan), edge scans and edge hops
		{"V().hasLabel(L)", func(k int) []*gripql.GraphStatement { return gripql.V().HasLabel("L").Statements }, func(n, k int) int { return n }},
		{"V().hasLabel(L).limit(k)", func(k int) []*gripql.GraphStatement { return gripql.V().HasLabel("L").Limit(uint32(k)).Statements }, func(n, k int) int { return min(k, n) }},
		{"V().hasLabel(L).in().limit(k)", func(k int) []*gripql.GraphStatement { return gripql.V().HasLabel("L").In().Limit(uint32(k)).Statements }, func(n, k int) int { return min(k, n) }},
		{"E().limit(k)", func(k int) []*gripql.GraphStatement { return gripql.E().Limit(uint32(k)).Statements }, func(n, k int) int { return min(k, n) }},
		{"V().outE().out().limit(k)", func(k int) []*gripql.GraphStatement { return gripql.V().OutE().Out().Limit(uint32(k)).Statements }, func(n, k int) int { return min(k, n) }},
	}
}

func scaledCaps(n int, site string) int {
	switch {
	case n >= 5000:
		return 5
	case n >= 1000:
		return 3
	case n >= 50:
		return 2
	case n >= 10:
		return 2
	}
	return n
}

// c07Body: cancelAfter < 0: no client cancellation.
func c07Body(gi gdbi.GraphInterface, stmts []*gripql.GraphStatement, bufsize int, cancelAfter int) func() {
	return func() {
		pipe, err := gi.Compiler().Compile(stmts, nil)
		if err != nil {
			vs.Obs("compile-error")
			return
		}
		ctx, cancel := context.WithCancel(context.Background())
		out := pipeline.Start(ctx, pipe, qrun.MemManager{}, bufsize, nil, nil)
		rows := 0
		if cancelAfter == 0 {
			vs.PointAt("client-cancel")
			cancel()
		}
		vs.PreRecv(out, "harness:collect")
		for t := range out {
			if !t.IsSignal() {
				rows++
				if rows == cancelAfter {
					vs.PointAt("client-cancel")
					cancel()
				}
			}
			vs.PreRecv(out, "harness:collect")
		}
		if cancelAfter < 0 {
			vs.Obs(fmt.Sprintf("rows=%d", rows))
		}
		cancel()
	}
}

// failingSink is a client that goes away: after `after` rows every Send fails and its context is cancelled.
type failingSink struct {
	rowSink
	after  int
	sent   int
	ctx    context.Context
	cancel context.CancelFunc
}

func (f *failingSink) Context() context.Context { return f.ctx }
func (f *failingSink) Send(q *gripql.QueryResult) error {
	if f.sent >= f.after {
		f.cancel()
		return fmt.Errorf("transport is closing")
	}
	f.sent++
	return nil
}

// c07ServerBody drives the real GripServer.Traversal handler (compile, pipeline.Run, row conversion, Send
// loop) over a star graph for a client that disconnects after `after` rows (after < 0: reads everything).
func c07ServerBody(n int, stmts []*gripql.GraphStatement, after int) func() {
	var db gdbi.GraphDB
	{
		// the graph is stored once, outside the scheduler; the executions only read it
		db = kvgraph.NewKVGraph(memkv.New())
		db.AddGraph("g")
		gi, _ := db.Graph("g")
		vsx := []*gdbi.Vertex{{ID: "h", Label: "H", Data: map[string]any{}, Loaded: true}}
		var es []*gdbi.Edge
		for i := 0; i < n; i++ {
			l := fmt.Sprintf("l%d", i)
			vsx = append(vsx, &gdbi.Vertex{ID: l, Label: "L", Data: map[string]any{}, Loaded: true})
			es = append(es, &gdbi.Edge{ID: "e" + l, From: "h", To: l, Label: "x", Loaded: true})
		}
		gi.AddVertex(vsx)
		if len(es) > 0 {
			gi.AddEdge(es)
		}
	}
	return func() {
		srv := newServer(db)
		ctx, cancel := context.WithCancel(context.Background())
		sink := &failingSink{after: after, ctx: ctx, cancel: cancel}
		if after < 0 {
			sink.after = 1 << 30
		}
		err := srv.Traversal(&gripql.GraphQuery{Graph: "g", Query: stmts}, sink)
		cancel()
		vs.Obs(fmt.Sprintf("sent=%d failed=%v", sink.sent, err != nil))
	}
}

func c07Scenarios(tier string) []schedScenario {
	thorough := tier == "thorough"
	var out []schedScenario
	progs := c07Programs()
	// the server's own handler with a client that goes away: whatever is still in flight must be drained or
	// stopped, no goroutine may stay blocked behind the result channel (capacities scaled as in regime (a))
	for _, q := range []struct {
		name  string
		stmts []*gripql.GraphStatement
		rows  func(n int) int
	}{
		{"V().out()", gripql.V().Out().Statements, func(n int) int { return n }},
		{"V().hasLabel(L).in()", gripql.V().HasLabel("L").In().Statements, func(n int) int { return n }},
	} {
		for _, n := range []int{3, 8, 17} {
			for _, after := range []int{-1, 0, 1} {
				sent := after
				if after < 0 {
					sent = q.rows(n)
				}
				out = append(out, schedScenario{Name: fmt.Sprintf("server.Traversal %s star(%d), client gone after %d rows", q.name, n, after), Class: "server-handler|" + q.name, Bound: 1, MaxExec: 1500, Budget: 40 * time.Second, CapMap: scaledCaps,
					Body: c07ServerBody(n, q.stmts, after), Want: []string{fmt.Sprintf("sent=%d failed=%v", sent, after >= 0)}})
			}
		}
	}
	sizes := []int{0, 1, 2, 3, 5, 8, 12, 17}
	if thorough {
		sizes = []int{0, 1, 2, 3, 4, 5, 6, 8, 10, 12, 14, 17, 22}
	}
	maxExec, budget := 1500, 40*time.Second
	if thorough {
		maxExec, budget = 20000, 4*time.Minute
	}
	for _, p := range progs {
		for _, n := range sizes {
			gi := starGraph(n)
			k := 2
			want := []string{}
			if r := p.Rows(n, k); r >= 0 {
				want = []string{fmt.Sprintf("rows=%d", r)}
			} else {
				want = nil
			}
			sc := schedScenario{Name: fmt.Sprintf("scaled-caps %s star(%d) k=%d", p.Name, n, k), Class: "scaled|" + p.Name, Bound: 1, MaxExec: maxExec, Budget: budget, CapMap: scaledCaps,
				Body: c07Body(gi, p.Stmts(k), 5, -1), Want: want}
			if want == nil {
				sc.Body = c07BodyNoCount(gi, p.Stmts(k), 5)
				sc.Want = []string{}
			}
			out = append(out, sc)
			// client cancellation after 0, 1 and 3 rows
			if n == 3 || n == 8 || (thorough && n == 17) {
				for _, ca := range []int{0, 1, 3} {
					out = append(out, schedScenario{Name: fmt.Sprintf("scaled-caps %s star(%d) client cancels after %d rows", p.Name, n, ca), Class: "scaled-cancel|" + p.Name, Bound: 1, MaxExec: maxExec, Budget: budget, CapMap: scaledCaps,
						Body: c07Body(gi, p.Stmts(k), 5, ca), Want: []string{}})
				}
			}
		}
	}
	// regime (b): real capacities, default schedule and a few deviations
	real := []int{99, 100, 101, 201, 301, 999, 1001, 2001}
	if thorough {
		real = append(real, 3001, 4999, 5001, 10001, 15001)
	}
	for _, p := range progs {
		for _, n := range real {
			if !thorough && n > 301 && p.Name != "V().both()" && p.Name != "V().out()" && p.Name != "V()" {
				continue
			}
			gi := starGraph(n)
			k := 150
			var want []string
			body := c07Body(gi, p.Stmts(k), 5000, -1)
			if r := p.Rows(n, k); r >= 0 {
				want = []string{fmt.Sprintf("rows=%d", r)}
			} else {
				body = c07BodyNoCount(gi, p.Stmts(k), 5000)
				want = []string{}
			}
			out = append(out, schedScenario{Name: fmt.Sprintf("real-caps %s star(%d) k=%d", p.Name, n, k), Class: "real|" + p.Name, Bound: 0, MaxExec: 3, Budget: 5 * time.Minute, Body: body, Want: want})
		}
	}
	return out
}

func c07BodyNoCount(gi gdbi.GraphInterface, stmts []*gripql.GraphStatement, bufsize int) func() {
	return func() {
		pipe, err := gi.Compiler().Compile(stmts, nil)
		if err != nil {
			vs.Obs("compile-error")
			return
		}
		ctx, cancel := context.WithCancel(context.Background())
		out := pipeline.Start(ctx, pipe, qrun.MemManager{}, bufsize, nil, nil)
		vs.PreRecv(out, "harness:collect")
		for range out {
			vs.PreRecv(out, "harness:collect")
		}
		cancel()
	}
}

// tempStorageSweep: unscheduled runs through the unmodified pipeline.Run with a private work directory.
// The runs happen in crash-isolated worker processes (pseudo check id "C07tmp"): a step that touches its
// temporary store after the manager cleaned it up kills the process, which must be a verdict, not a
// broken harness.
type c07TmpCase struct {
	size        int
	name        string
	stmts       []*gripql.GraphStatement
	cancelAfter int
}

type c07TmpWorker struct{ cases []c07TmpCase }

func newC07TmpWorker() *c07TmpWorker {
	w := &c07TmpWorker{}
	for _, size := range []int{0, 3, 50} {
		for _, q := range []struct {
			name  string
			stmts []*gripql.GraphStatement
		}{
			{"V().distinct()", gripql.V().Distinct().Statements},
			{"V().both().distinct(n)", gripql.V().Both().Distinct("n").Statements},
			{"V().distinct().limit(2)", gripql.V().Distinct().Limit(2).Statements},
			{"V().out().distinct().limit(2)", gripql.V().Out().Distinct().Limit(2).Statements},
			{"V().out().distinct().count()", gripql.V().Out().Distinct().Count().Statements},
		} {
			for _, cancelAfter := range []int{-1, 0, 1} {
				w.cases = append(w.cases, c07TmpCase{size, q.name, q.stmts, cancelAfter})
			}
		}
	}
	return w
}

func (w *c07TmpWorker) N() int { return len(w.cases) }
func (w *c07TmpWorker) Describe(i int) string {
	c := w.cases[i]
	return fmt.Sprintf("pipeline.Run %s on star(%d), client cancel after %d rows", c.name, c.size, c.cancelAfter)
}

func (w *c07TmpWorker) Item(idx int, emit func(vf.Violation), st sweep.Stats, sample func(string)) {
	c := w.cases[idx]
	gi := starGraph(c.size)
	dir := filepath.Join(harnessWorkDir(), "c07-tmp", fmt.Sprintf("w%d", idx))
	os.MkdirAll(dir, 0o755)
	defer os.RemoveAll(dir)
	pipe, err := gi.Compiler().Compile(c.stmts, nil)
	if err != nil {
		return
	}
	st["runs"]++
	ctx, cancel := context.WithCancel(context.Background())
	res := pipeline.Run(ctx, pipe, dir)
	rows := 0
	if c.cancelAfter == 0 {
		cancel()
	}
	deadline := time.After(5 * time.Minute)
	closed := false
	for !closed {
		select {
		case _, ok := <-res:
			if !ok {
				closed = true
				break
			}
			rows++
			if rows == c.cancelAfter {
				cancel()
			}
		case <-deadline:
			closed = true
			emit(vf.Violation{Sig: "temp-storage|no-answer|" + c.name, Detail: w.Describe(idx) + ": did not finish (unscheduled run)", Replay: c.name})
		}
	}
	cancel()
	// upstream steps may still be winding down: give them a moment so that a late use of the cleaned-up
	// temporary store shows up as a crash of this worker rather than being cut off by its exit
	time.Sleep(20 * time.Millisecond)
	// the work directory is cleaned up by the pipeline's own goroutine after the stream has closed: wait for
	// it (no short wall-clock verdict), and call it left behind only if it is still there after two minutes
	left, _ := os.ReadDir(dir)
	for i := 0; i < 1200 && len(left) > 0; i++ {
		time.Sleep(100 * time.Millisecond)
		left, _ = os.ReadDir(dir)
	}
	if len(left) > 0 {
		emit(vf.Violation{Sig: "temp-storage|left-behind|" + c.name, Detail: fmt.Sprintf("%s: %d entries left in the work directory after the result stream closed", w.Describe(idx), len(left)), Replay: c.name})
	}
	if idx%15 == 0 {
		sample(w.Describe(idx) + ": work dir empty afterwards")
	}
}

func tempStorageSweep(run *vf.Run) (int, []string) {
	w := newC07TmpWorker()
	res := sweep.Run(run, "C07tmp", run.Tier, w, time.Now().Add(10*time.Minute), 0, func(idx int, stderr string, hang bool) {
		run.Report(vf.Violation{Sig: "temp-storage|process-died|" + w.cases[idx].name + "|" + sweep.PanicSite(stderr),
			Detail: fmt.Sprintf("%s: the process died: %s", w.Describe(idx), sweep.PanicSite(stderr)), Replay: w.cases[idx].name})
	})
	os.RemoveAll(filepath.Join(harnessWorkDir(), "c07-tmp"))
	return res.Stats["runs"], res.Samples
}

// C07 runs the check.
func C07(tier string, args []string) int {
	w := &schedWorker{prop: "C07", scenarios: c07Scenarios(tier)}
	if sweep.IsWorker(args) {
		return sweep.RunWorker(w, args)
	}
	return runSchedWith("C07", tier, args, w,
		"19 traversal shapes (scan, fan-out, both/bothE fan-in, every kind of aggregation over a field that is not numeric in one early row, distinct, limit/range, label-index starts with and without truncation, edge scans and edge hops under limit) on star graphs; regime (a): all literal capacities scaled to 2..5, N from 0 to 17 (22), preemption bound 1 with an execution cap per scenario, plus client cancellation after 0/1/3 rows; regime (b): real capacities, N around 100/1000 (5000 thorough), default schedule plus deviations; every execution must close the result stream, return the expected number of rows, leave no goroutine parked; deadlock is 'no enabled goroutine'",
		[]string{
			"regime (a) is a model variant of the code: the literal capacities 10/50/100/1000/5000 are replaced by 2/2/2/3/5 (order preserving) through the instrumented make(chan) calls; regime (b) runs the capacities as written",
			"the temporary-storage clause is decided by an unscheduled sweep of distinct() traversals through the unmodified pipeline.Run (Badger temp stores) with a private work directory that must be empty once the result stream has closed, with and without client cancellation",
			"the preemption bound and execution caps are reported per scenario; a capped scenario is not called exhaustive",
		}, tempStorageSweep)
}
