package checks

// C06: no request can crash the server.
//
// Bounded-exhaustive enumeration in crash-isolated workers: every statement
// sequence up to a length bound over a hostile step alphabet x 3 fixture graphs
// through the production compiler and pipeline, and every edit request of a
// small hostile family through the real GripServer handlers. The oracle is
// only: the process survives and the call returns (rows or an error). A worker
// that dies is attributed to the exact request; the signature is the panic
// message class plus the first grip frame.

import (
	"context"
	"crypto/sha1"
	"fmt"
	"io"
	"os"
	"path/filepath"
	"strings"
	"time"

	"github.com/bmeg/grip/gdbi"
	"github.com/bmeg/grip/gripql"
	"github.com/bmeg/grip/kvgraph"
	"google.golang.org/grpc"
	"google.golang.org/grpc/metadata"
	"google.golang.org/protobuf/types/known/structpb"

	"verif/harness/memkv"
	"verif/harness/progenum"
	"verif/harness/qrun"
	"verif/harness/sweep"
	"verif/harness/vf"
)

type nstmt struct {
	Name string
	S    *gripql.GraphStatement
}

func lv(vals ...any) *structpb.ListValue {
	l, _ := structpb.NewList(vals)
	return l
}
func sv(v any) *structpb.Value {
	x, err := structpb.NewValue(v)
	if err != nil {
		panic(err)
	}
	return x
}

func cond(op gripql.Condition, key string, v any) *gripql.HasExpression {
	return &gripql.HasExpression{Expression: &gripql.HasExpression_Condition{Condition: &gripql.HasCondition{Key: key, Value: sv(v), Condition: op}}}
}

func c06Starts() []nstmt {
	return []nstmt{
		{"V()", gripql.V().Statements[0]},
		{"V(a)", gripql.V("a").Statements[0]},
		{"E()", gripql.E().Statements[0]},
		{"V(zz)", gripql.V("zz").Statements[0]},
	}
}

func agg(name string, a *gripql.Aggregate) *gripql.Aggregate { a.Name = name; return a }

func c06Alphabet(thorough bool) []nstmt {
	var a []nstmt
	add := func(n string, s *gripql.GraphStatement) { a = append(a, nstmt{n, s}) }
	q := func(f func(*gripql.Query) *gripql.Query) *gripql.GraphStatement {
		return f(gripql.NewQuery()).Statements[0]
	}
	// moves incl. the null-producing ones
	add("out()", q(func(x *gripql.Query) *gripql.Query { return x.Out() }))
	add("in()", q(func(x *gripql.Query) *gripql.Query { return x.In() }))
	add("both()", q(func(x *gripql.Query) *gripql.Query { return x.Both() }))
	add("outE()", q(func(x *gripql.Query) *gripql.Query { return x.OutE() }))
	add("bothE()", q(func(x *gripql.Query) *gripql.Query { return x.BothE() }))
	add("outNull(zz)", q(func(x *gripql.Query) *gripql.Query { return x.OutNull("zz") }))
	add("inNull(zz)", q(func(x *gripql.Query) *gripql.Query { return x.InNull("zz") }))
	add("outENull(zz)", &gripql.GraphStatement{Statement: &gripql.GraphStatement_OutENull{OutENull: lv("zz")}})
	add("inENull(zz)", &gripql.GraphStatement{Statement: &gripql.GraphStatement_InENull{InENull: lv("zz")}})
	// conditions with unexpected value types
	kinds := []any{nil, true, 1.0, "a", []any{}, []any{1.0}, []any{1.0, 2.0, 3.0}, []any{"a", nil}, map[string]any{"k": 1.0}}
	ops := []gripql.Condition{gripql.Condition_EQ, gripql.Condition_GT, gripql.Condition_INSIDE, gripql.Condition_OUTSIDE, gripql.Condition_BETWEEN, gripql.Condition_WITHIN, gripql.Condition_WITHOUT, gripql.Condition_CONTAINS}
	for _, op := range ops {
		for i, k := range kinds {
			if !thorough && i%2 == 1 && op != gripql.Condition_WITHIN {
				continue
			}
			add(fmt.Sprintf("has(%s(n,%s))", strings.ToLower(op.String()), vf.J(k)), &gripql.GraphStatement{Statement: &gripql.GraphStatement_Has{Has: cond(op, "n", k)}})
		}
	}
	// the same on element values that are themselves lists or objects (fixture F4: t is a list, m an object),
	// with list arguments whose members are lists or objects again
	for _, key := range []string{"t", "m"} {
		for _, op := range []gripql.Condition{gripql.Condition_EQ, gripql.Condition_WITHIN, gripql.Condition_WITHOUT, gripql.Condition_CONTAINS} {
			for _, k := range []any{[]any{[]any{"x", "y"}}, []any{map[string]any{"k": 1.0}}} {
				add(fmt.Sprintf("has(%s(%s,%s))", strings.ToLower(op.String()), key, vf.J(k)), &gripql.GraphStatement{Statement: &gripql.GraphStatement_Has{Has: cond(op, key, k)}})
			}
		}
	}
	// leading filters that the index-start rewrite inspects
	for _, key := range []string{"_gid", "_label"} {
		for _, k := range []any{1.0, nil, []any{1.0}, []any{"a", 1.0}, map[string]any{}} {
			add(fmt.Sprintf("has(eq(%s,%s))", key, vf.J(k)), &gripql.GraphStatement{Statement: &gripql.GraphStatement_Has{Has: cond(gripql.Condition_EQ, key, k)}})
			add(fmt.Sprintf("has(within(%s,%s))", key, vf.J(k)), &gripql.GraphStatement{Statement: &gripql.GraphStatement_Has{Has: cond(gripql.Condition_WITHIN, key, k)}})
		}
	}
	add("has(and())", &gripql.GraphStatement{Statement: &gripql.GraphStatement_Has{Has: gripql.And()}})
	// (a sub-message that is present on the wire always decodes to a non-nil, possibly empty, message)
	add("has(not(<empty>))", &gripql.GraphStatement{Statement: &gripql.GraphStatement_Has{Has: &gripql.HasExpression{Expression: &gripql.HasExpression_Not{Not: &gripql.HasExpression{}}}}})
	add("has(<empty>)", &gripql.GraphStatement{Statement: &gripql.GraphStatement_Has{Has: &gripql.HasExpression{}}})
	add("has(cond(<empty>))", &gripql.GraphStatement{Statement: &gripql.GraphStatement_Has{Has: &gripql.HasExpression{Expression: &gripql.HasExpression_Condition{Condition: &gripql.HasCondition{}}}}})
	// undefined marks
	add("as(m1)", q(func(x *gripql.Query) *gripql.Query { return x.As("m1") }))
	add("select(zz)", q(func(x *gripql.Query) *gripql.Query { return x.Select("zz") }))
	add("select(m1,zz)", q(func(x *gripql.Query) *gripql.Query { return x.Select("m1", "zz") }))
	add("select(m1)", q(func(x *gripql.Query) *gripql.Query { return x.Select("m1") }))
	add("has(eq($zz.n,1))", &gripql.GraphStatement{Statement: &gripql.GraphStatement_Has{Has: cond(gripql.Condition_EQ, "$zz.n", 1.0)}})
	add("render($zz)", q(func(x *gripql.Query) *gripql.Query {
		return x.Render(map[string]any{"a": "$zz.n", "b": "$zz", "c": 1.0})
	}))
	add("distinct($zz.n)", q(func(x *gripql.Query) *gripql.Query { return x.Distinct("$zz.n") }))
	add("hasKey($zz.n)", q(func(x *gripql.Query) *gripql.Query { return x.HasKey("$zz.n") }))
	// aggregations
	mk := func(n string, aggs ...*gripql.Aggregate) {
		add(n, &gripql.GraphStatement{Statement: &gripql.GraphStatement_Aggregate{Aggregate: &gripql.Aggregations{Aggregations: aggs}}})
	}
	mk("aggregate()")
	mk("aggregate(unnamed-no-kind)", &gripql.Aggregate{})
	term := func(f string, size uint32) *gripql.Aggregate {
		return &gripql.Aggregate{Aggregation: &gripql.Aggregate_Term{Term: &gripql.TermAggregation{Field: f, Size: size}}}
	}
	hist := func(f string, iv uint32) *gripql.Aggregate {
		return &gripql.Aggregate{Aggregation: &gripql.Aggregate_Histogram{Histogram: &gripql.HistogramAggregation{Field: f, Interval: iv}}}
	}
	pct := func(f string, p ...float64) *gripql.Aggregate {
		return &gripql.Aggregate{Aggregation: &gripql.Aggregate_Percentile{Percentile: &gripql.PercentileAggregation{Field: f, Percents: p}}}
	}
	fld := func(f string) *gripql.Aggregate {
		return &gripql.Aggregate{Aggregation: &gripql.Aggregate_Field{Field: &gripql.FieldAggregation{Field: f}}}
	}
	typ := func(f string) *gripql.Aggregate {
		return &gripql.Aggregate{Aggregation: &gripql.Aggregate_Type{Type: &gripql.TypeAggregation{Field: f}}}
	}
	cnt := func() *gripql.Aggregate {
		return &gripql.Aggregate{Aggregation: &gripql.Aggregate_Count{Count: &gripql.CountAggregation{}}}
	}
	mk("aggregate(dup:term,term)", agg("x", term("n", 0)), agg("x", term("s", 1)))
	mk("aggregate(dup:count,hist)", agg("x", cnt()), agg("x", hist("n", 1)))
	for _, f := range []string{"n", "s", "zz", "t", "m", "$zz.n", "", "$", "$.", "a[", "a[0", "..", "@"} {
		mk("aggregate(term("+f+"))", agg("a", term(f, 1)))
		mk("aggregate(hist("+f+",1))", agg("a", hist(f, 1)))
		mk("aggregate(pct("+f+",[50]))", agg("a", pct(f, 50)))
		if thorough || f == "n" || f == "zz" || f == "" {
			mk("aggregate(field("+f+"))", agg("a", fld(f)))
			mk("aggregate(type("+f+"))", agg("a", typ(f)))
		}
	}
	mk("aggregate(hist(n,0))", agg("a", hist("n", 0)))
	mk("aggregate(pct(n,[]))", agg("a", pct("n")))
	mk("aggregate(pct(n,[-1,101,NaN]))", agg("a", pct("n", -1, 101)))
	mk("aggregate(count,term,field)", agg("a", cnt()), agg("b", term("n", 0)), agg("c", fld("$._data")))
	mk("aggregate(term(<empty>))", &gripql.Aggregate{Name: "a", Aggregation: &gripql.Aggregate_Term{Term: &gripql.TermAggregation{}}})
	mk("aggregate(hist(<empty>))", &gripql.Aggregate{Name: "a", Aggregation: &gripql.Aggregate_Histogram{Histogram: &gripql.HistogramAggregation{}}})
	mk("aggregate(pct(<empty>))", &gripql.Aggregate{Name: "a", Aggregation: &gripql.Aggregate_Percentile{Percentile: &gripql.PercentileAggregation{}}})
	// ranges
	for _, r := range [][2]int32{{2, 1}, {-1, -1}, {0, 0}, {-5, 3}, {1, -7}} {
		add(fmt.Sprintf("range(%d,%d)", r[0], r[1]), q(func(x *gripql.Query) *gripql.Query { return x.Range(r[0], r[1]) }))
	}
	add("limit(0)", q(func(x *gripql.Query) *gripql.Query { return x.Limit(0) }))
	add("skip(4294967295)", q(func(x *gripql.Query) *gripql.Query { return x.Skip(4294967295) }))
	// projections / terminal steps followed by anything
	add("count()", q(func(x *gripql.Query) *gripql.Query { return x.Count() }))
	add("path()", &gripql.GraphStatement{Statement: &gripql.GraphStatement_Path{Path: lv()}})
	add("render(n)", q(func(x *gripql.Query) *gripql.Query { return x.Render("n") }))
	add("render(null)", &gripql.GraphStatement{Statement: &gripql.GraphStatement_Render{Render: sv(nil)}})
	add("fields()", q(func(x *gripql.Query) *gripql.Query { return x.Fields() }))
	add("fields($zz.n,-_gid,..)", q(func(x *gripql.Query) *gripql.Query { return x.Fields("$zz.n", "-_gid", "..", "m.k.j", "-m.k.j") }))
	add("distinct()", q(func(x *gripql.Query) *gripql.Query { return x.Distinct() }))
	add("distinct(a[)", q(func(x *gripql.Query) *gripql.Query { return x.Distinct("a[", "@", "") }))
	add("hasLabel(<empty list>)", &gripql.GraphStatement{Statement: &gripql.GraphStatement_HasLabel{HasLabel: lv()}})
	add("hasId(1)", &gripql.GraphStatement{Statement: &gripql.GraphStatement_HasId{HasId: lv(1.0, nil)}})
	add("hasKey()", &gripql.GraphStatement{Statement: &gripql.GraphStatement_HasKey{HasKey: lv("", "$", "a[")}})
	add("out(1,nil)", &gripql.GraphStatement{Statement: &gripql.GraphStatement_Out{Out: lv(1.0, nil)}})
	add("V(1)", &gripql.GraphStatement{Statement: &gripql.GraphStatement_V{V: lv(1.0)}})
	add("unwind(t)", &gripql.GraphStatement{Statement: &gripql.GraphStatement_Unwind{Unwind: "t"}})
	add("unwind(zz)", &gripql.GraphStatement{Statement: &gripql.GraphStatement_Unwind{Unwind: "zz"}})
	add("unwind()", &gripql.GraphStatement{Statement: &gripql.GraphStatement_Unwind{Unwind: ""}})
	add("unwind($zz.t)", &gripql.GraphStatement{Statement: &gripql.GraphStatement_Unwind{Unwind: "$zz.t"}})
	// set / increment / mark / jump
	add("set(c,1)", &gripql.GraphStatement{Statement: &gripql.GraphStatement_Set{Set: &gripql.Set{Key: "c", Value: sv(1.0)}}})
	add("set($zz.c,1)", &gripql.GraphStatement{Statement: &gripql.GraphStatement_Set{Set: &gripql.Set{Key: "$zz.c", Value: sv(1.0)}}})
	add("set(<empty>)", &gripql.GraphStatement{Statement: &gripql.GraphStatement_Set{Set: &gripql.Set{}}})
	add("increment(c,1)", &gripql.GraphStatement{Statement: &gripql.GraphStatement_Increment{Increment: &gripql.Increment{Key: "c", Value: 1}}})
	add("increment(s,1)", &gripql.GraphStatement{Statement: &gripql.GraphStatement_Increment{Increment: &gripql.Increment{Key: "s", Value: 1}}})
	add("increment($zz.c,1)", &gripql.GraphStatement{Statement: &gripql.GraphStatement_Increment{Increment: &gripql.Increment{Key: "$zz.c", Value: 1}}})
	add("increment(<empty>)", &gripql.GraphStatement{Statement: &gripql.GraphStatement_Increment{Increment: &gripql.Increment{}}})
	add("mark(a)", &gripql.GraphStatement{Statement: &gripql.GraphStatement_Mark{Mark: "a"}})
	add("jump(zz,nil,false)", &gripql.GraphStatement{Statement: &gripql.GraphStatement_Jump{Jump: &gripql.Jump{Mark: "zz"}}})
	add("jump(<empty>)", &gripql.GraphStatement{Statement: &gripql.GraphStatement_Jump{Jump: &gripql.Jump{}}})
	add("<empty statement>", &gripql.GraphStatement{})
	return a
}

type c06Edit struct {
	Name string
	Run  func(srv gripql.EditServer, qs gripql.QueryServer)
}

type bulkStream struct {
	elems []*gripql.GraphElement
	i     int
	ctx   context.Context
}

func (b *bulkStream) Recv() (*gripql.GraphElement, error) {
	if b.i >= len(b.elems) {
		return nil, io.EOF
	}
	b.i++
	return b.elems[b.i-1], nil
}
func (b *bulkStream) SendAndClose(*gripql.BulkEditResult) error { return nil }
func (b *bulkStream) SetHeader(metadata.MD) error               { return nil }
func (b *bulkStream) SendHeader(metadata.MD) error              { return nil }
func (b *bulkStream) SetTrailer(metadata.MD)                    {}
func (b *bulkStream) Context() context.Context                  { return b.ctx }
func (b *bulkStream) SendMsg(m interface{}) error               { return nil }
func (b *bulkStream) RecvMsg(m interface{}) error               { return nil }

var _ grpc.ServerStream = (*bulkStream)(nil)

func c06Edits(thorough bool) []c06Edit {
	var out []c06Edit
	ctx := context.Background()
	type el struct {
		n string
		e func(g string) *gripql.GraphElement
	}
	kinds := []el{
		{"valid-vertex", func(g string) *gripql.GraphElement {
			return &gripql.GraphElement{Graph: g, Vertex: &gripql.Vertex{Gid: "v", Label: "L"}}
		}},
		{"invalid-vertex", func(g string) *gripql.GraphElement { return &gripql.GraphElement{Graph: g, Vertex: &gripql.Vertex{}} }},
		{"neither", func(g string) *gripql.GraphElement { return &gripql.GraphElement{Graph: g} }},
		{"valid-edge", func(g string) *gripql.GraphElement {
			return &gripql.GraphElement{Graph: g, Edge: &gripql.Edge{Gid: "e", Label: "x", From: "v", To: "v"}}
		}},
	}
	graphs := []string{"g1", "missing", "g1__schema__", ""}
	var units []struct {
		n string
		f func() *gripql.GraphElement
	}
	for _, g := range graphs {
		for _, k := range kinds {
			g, k := g, k
			units = append(units, struct {
				n string
				f func() *gripql.GraphElement
			}{k.n + "@" + fmt.Sprintf("%q", g), func() *gripql.GraphElement { return k.e(g) }})
		}
	}
	maxLen := 2
	if thorough {
		maxLen = 3
	}
	var rec func(prefix []int)
	rec = func(prefix []int) {
		if len(prefix) > 0 {
			idxs := append([]int{}, prefix...)
			var names []string
			for _, i := range idxs {
				names = append(names, units[i].n)
			}
			out = append(out, c06Edit{Name: "BulkAdd[" + strings.Join(names, ", ") + "]", Run: func(srv gripql.EditServer, qs gripql.QueryServer) {
				st := &bulkStream{ctx: ctx}
				for _, i := range idxs {
					st.elems = append(st.elems, units[i].f())
				}
				srv.BulkAdd(st)
			}})
		}
		if len(prefix) == maxLen {
			return
		}
		for i := range units {
			rec(append(prefix, i))
		}
	}
	rec(nil)
	for _, g := range graphs {
		g := g
		out = append(out,
			c06Edit{"AddVertex(nil vertex)@" + g, func(s gripql.EditServer, q gripql.QueryServer) { s.AddVertex(ctx, &gripql.GraphElement{Graph: g}) }},
			c06Edit{"AddVertex(valid)@" + g, func(s gripql.EditServer, q gripql.QueryServer) {
				s.AddVertex(ctx, &gripql.GraphElement{Graph: g, Vertex: &gripql.Vertex{Gid: "v", Label: "L"}})
			}},
			c06Edit{"AddEdge(nil edge)@" + g, func(s gripql.EditServer, q gripql.QueryServer) { s.AddEdge(ctx, &gripql.GraphElement{Graph: g}) }},
			c06Edit{"AddEdge(valid)@" + g, func(s gripql.EditServer, q gripql.QueryServer) {
				s.AddEdge(ctx, &gripql.GraphElement{Graph: g, Edge: &gripql.Edge{Label: "x", From: "v", To: "v"}})
			}},
			c06Edit{"DeleteVertex@" + g, func(s gripql.EditServer, q gripql.QueryServer) {
				s.DeleteVertex(ctx, &gripql.ElementID{Graph: g, Id: "v"})
			}},
			c06Edit{"DeleteEdge@" + g, func(s gripql.EditServer, q gripql.QueryServer) {
				s.DeleteEdge(ctx, &gripql.ElementID{Graph: g, Id: "e"})
			}},
			c06Edit{"DeleteGraph@" + g, func(s gripql.EditServer, q gripql.QueryServer) { s.DeleteGraph(ctx, &gripql.GraphID{Graph: g}) }},
			c06Edit{"AddGraph@" + g, func(s gripql.EditServer, q gripql.QueryServer) { s.AddGraph(ctx, &gripql.GraphID{Graph: g}) }},
			c06Edit{"AddIndex@" + g, func(s gripql.EditServer, q gripql.QueryServer) {
				s.AddIndex(ctx, &gripql.IndexID{Graph: g, Label: "L", Field: "f"})
			}},
			c06Edit{"DeleteIndex@" + g, func(s gripql.EditServer, q gripql.QueryServer) {
				s.DeleteIndex(ctx, &gripql.IndexID{Graph: g, Label: "L", Field: "f"})
			}},
			c06Edit{"AddSchema(nil)@" + g, func(s gripql.EditServer, q gripql.QueryServer) { s.AddSchema(ctx, &gripql.Graph{Graph: g}) }},
			c06Edit{"GetVertex@" + g, func(s gripql.EditServer, q gripql.QueryServer) {
				q.GetVertex(ctx, &gripql.ElementID{Graph: g, Id: "v"})
			}},
			c06Edit{"GetEdge@" + g, func(s gripql.EditServer, q gripql.QueryServer) { q.GetEdge(ctx, &gripql.ElementID{Graph: g, Id: "e"}) }},
			c06Edit{"ListLabels@" + g, func(s gripql.EditServer, q gripql.QueryServer) { q.ListLabels(ctx, &gripql.GraphID{Graph: g}) }},
			c06Edit{"ListIndices@" + g, func(s gripql.EditServer, q gripql.QueryServer) { q.ListIndices(ctx, &gripql.GraphID{Graph: g}) }},
			c06Edit{"GetSchema@" + g, func(s gripql.EditServer, q gripql.QueryServer) { q.GetSchema(ctx, &gripql.GraphID{Graph: g}) }},
			c06Edit{"GetTimestamp@" + g, func(s gripql.EditServer, q gripql.QueryServer) { q.GetTimestamp(ctx, &gripql.GraphID{Graph: g}) }},
		)
	}
	return out
}

type c06Worker struct {
	progs  [][]nstmt
	edits  []c06Edit
	gis    []gdbi.GraphInterface
	names  []string
	crashD string
}

func progName(p []nstmt) string {
	var s []string
	for _, x := range p {
		s = append(s, x.Name)
	}
	return strings.Join(s, ".")
}

func newC06Worker(tier string) *c06Worker {
	thorough := tier == "thorough"
	w := &c06Worker{crashD: filepath.Join(vf.Root(), ".work", "c06-crashed")}
	alpha := c06Alphabet(thorough)
	maxLen := 3
	for _, s := range c06Starts() {
		w.progs = append(w.progs, []nstmt{s})
	}
	level := append([][]nstmt{}, w.progs...)
	for l := 2; l <= maxLen; l++ {
		var next [][]nstmt
		for _, p := range level {
			if !thorough && l == 3 && (p[0].Name == "V(zz)" || p[0].Name == "V(a)") {
				continue
			}
			for _, s := range alpha {
				next = append(next, append(append([]nstmt{}, p...), s))
			}
		}
		w.progs = append(w.progs, next...)
		level = next
	}
	fx := progenum.Fixtures()
	for _, i := range []int{0, 2, 4} {
		_, gi := fx[i].LoadMem()
		w.gis = append(w.gis, gi)
		w.names = append(w.names, fx[i].Name)
	}
	w.edits = c06Edits(thorough)
	return w
}

func (w *c06Worker) N() int { return len(w.progs) + len(w.edits) }
func (w *c06Worker) Describe(i int) string {
	if i < len(w.progs) {
		return progName(w.progs[i])
	}
	return w.edits[i-len(w.progs)].Name
}

func (w *c06Worker) crashedFile(p []nstmt) string {
	h := sha1.Sum([]byte(progName(p)))
	return filepath.Join(w.crashD, fmt.Sprintf("%x", h[:8]))
}

func (w *c06Worker) Item(idx int, emit func(vf.Violation), st sweep.Stats, sample func(string)) {
	if idx >= len(w.progs) {
		e := w.edits[idx-len(w.progs)]
		// a fresh server per request: g1 exists, the others do not
		kv := memkv.New()
		db := kvgraph.NewKVGraph(kv)
		db.AddGraph("g1")
		srv := newServer(db)
		st["edit_requests"]++
		func() {
			defer func() {
				if r := recover(); r != nil {
					// a panic in a handler goroutine terminates a real server (grpc-go does not recover)
					site := handlerPanicSite(fmt.Sprint(r))
					emit(vf.Violation{Sig: "handler-panic|" + site, Detail: fmt.Sprintf("request %s panicked in the handler: %v", e.Name, r), Replay: map[string]any{"request": e.Name}})
				}
			}()
			done := make(chan struct{})
			go func() {
				defer close(done)
				defer func() {
					if r := recover(); r != nil {
						site := handlerPanicSite(fmt.Sprint(r))
						emit(vf.Violation{Sig: "handler-panic|" + site, Detail: fmt.Sprintf("request %s panicked in the handler: %v", e.Name, r), Replay: map[string]any{"request": e.Name}})
					}
				}()
				e.Run(srv, srv)
			}()
			select {
			case <-done:
			case <-time.After(20 * time.Second):
				st["undecided_timeouts"]++
			}
		}()
		return
	}
	p := w.progs[idx]
	// skip extensions of a request that already crashed the process
	for k := 1; k < len(p); k++ {
		if _, err := os.Stat(w.crashedFile(p[:k])); err == nil {
			st["skipped_extension_of_crashing_prefix"]++
			return
		}
	}
	for _, x := range p[1:] {
		if n, _ := os.ReadDir(filepath.Join(w.crashD, "step-"+stepHash(x.Name))); len(n) >= 3 {
			st["skipped_contains_step_that_crashed_3_requests"]++
			return
		}
	}
	st["programs"]++
	var stmts []*gripql.GraphStatement
	for _, s := range p {
		stmts = append(stmts, s.S)
	}
	for gi := range w.gis {
		res := qrun.Run(w.gis[gi].Compiler(), stmts, 5*time.Second)
		st["runs"]++
		switch {
		case res.CompileErr != nil:
			st["rejected"]++
		case res.TimedOut:
			st["undecided_timeouts"]++
		default:
			st["answered"]++
			if len(res.Rows) > 0 {
				st["answered_with_rows"]++
			}
		}
	}
	if idx%2003 == 0 {
		sample(progName(p))
	}
}

func stepHash(name string) string {
	h := sha1.Sum([]byte(name))
	return fmt.Sprintf("%x", h[:8])
}

func handlerPanicSite(msg string) string {
	if len(msg) > 120 {
		msg = msg[:120]
	}
	return msg
}

// C06 runs the check.
func C06(tier string, args []string) int {
	w := newC06Worker(tier)
	if sweep.IsWorker(args) {
		return sweep.RunWorker(w, args)
	}
	run := vf.NewRun("C06", tier, "exploration")
	os.RemoveAll(w.crashD)
	os.MkdirAll(w.crashD, 0o755)
	defer os.RemoveAll(w.crashD)
	budget := 12 * time.Minute
	if tier == "thorough" {
		budget = 50 * time.Minute
	}
	res := sweep.Run(run, "C06", tier, w, time.Now().Add(budget), 120*time.Second, func(idx int, stderr string, hang bool) {
		desc := w.Describe(idx)
		if hang {
			// non-termination is C07's business; logged as undecided
			return
		}
		site := sweep.PanicSite(stderr)
		if idx < len(w.progs) {
			p := w.progs[idx]
			os.WriteFile(w.crashedFile(p), []byte(desc), 0o644)
			if len(p) > 1 {
				d := filepath.Join(w.crashD, "step-"+stepHash(p[len(p)-1].Name))
				os.MkdirAll(d, 0o755)
				os.WriteFile(filepath.Join(d, fmt.Sprint(idx)), []byte(desc), 0o644)
			}
		}
		run.Report(vf.Violation{Sig: "crash|" + site, Detail: fmt.Sprintf("the process died while serving %s: %s", desc, site), Replay: map[string]any{"request": desc, "index": idx}})
	})
	run.Coverage["evaluations"] = res.Stats["runs"] + res.Stats["edit_requests"]
	run.Coverage["programs"] = len(w.progs)
	run.Coverage["programs_run"] = res.Stats["programs"]
	run.Coverage["skipped_extension_of_crashing_prefix"] = res.Stats["skipped_extension_of_crashing_prefix"]
	run.Coverage["skipped_contains_step_that_crashed_3_requests"] = res.Stats["skipped_contains_step_that_crashed_3_requests"]
	run.Coverage["edit_requests"] = res.Stats["edit_requests"]
	run.Coverage["answered"] = res.Stats["answered"]
	run.Coverage["rejected_by_compiler"] = res.Stats["rejected"]
	run.Coverage["undecided_timeouts"] = res.Stats["undecided_timeouts"]
	run.Coverage["distinct_nontrivial"] = res.Stats["answered_with_rows"] + res.Stats["rejected"]
	run.Coverage["worker_crashes"] = res.Crashes
	run.Coverage["worker_hangs_undecided"] = res.Hangs
	run.Coverage["exhaustive"] = !res.DeadlineHit && res.Done >= w.N()
	run.Coverage["rule"] = "every statement sequence of length <=3 over 4 starts and the hostile alphabet (conditions of every JSON kind, index-rewrite inputs, undefined marks, empty/duplicate/degenerate aggregations, negative ranges, null-producing moves, set/increment/mark/jump, malformed keys, nil sub-messages) x 3 fixture graphs; every BulkAdd stream up to the length bound over 4 element kinds x 4 graph names and 17 unary requests x 4 graph names through the real GripServer; non-trivial = answered with rows or rejected with an error"
	s := res.Samples
	if len(s) == 0 {
		s = []string{progName(w.progs[len(w.progs)/2])}
	}
	run.Coverage["samples"] = s
	run.Assume = []string{
		"oracle: the process survives and the call returns; a request that does not return within the deadline is logged as undecided (non-termination belongs to C07), never as a violation",
		"a panic recovered by nobody in a pipeline goroutine kills the worker process: attributed to the exact request; a panic in a handler goroutine counts too (grpc-go does not recover handler panics)",
		"extensions of a request that already crashed the process are skipped (they contain the same failing prefix); once a step instance has been the last step of 3 crashing requests, further requests containing it are skipped and counted (they would only re-crash the worker)",
		"nil sub-messages are not in the alphabet (a sub-message present on the wire decodes to a non-nil message); empty sub-messages are",
	}
	return run.Finish()
}
