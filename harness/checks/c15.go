package checks

// C15: a gripper-mapped graph is exactly the graph its mapping describes.
//
// Bounded-exhaustive differential: a small grammar of table sets (two vertex
// tables, a link table whose rows cover normal, missing, empty, dangling and
// repeated links) x 9 mappings (distinct/shared labels, one prefix a prefix of
// the other, both link directions, two edge types over one table) is served by
// the real SimpleTableServicer over an in-memory gRPC connection and exposed by
// the real gripper.NewTabularGraph; every well-typed program up to a length
// bound (emphasis on leading hasLabel/id starts, which this driver plans
// itself) must return what the reference interpreter returns on the graph
// materialised from the same rows by the property's definition. Every write
// call must be refused.

import (
	"context"
	"fmt"
	"net"
	"sort"
	"strings"
	"time"

	"github.com/bmeg/grip/gdbi"
	"github.com/bmeg/grip/gripper"
	"github.com/bmeg/grip/gripql"
	"google.golang.org/grpc"
	"google.golang.org/grpc/credentials/insecure"
	"google.golang.org/grpc/test/bufconn"

	"verif/harness/gmodel"
	"verif/harness/qrun"
	"verif/harness/refsem"
	"verif/harness/sweep"
	"verif/harness/vf"
)

type memTable struct {
	rows   []*gripper.BaseRow
	fields []string
}

func (m *memTable) GetTimeout() int                           { return 10 }
func (m *memTable) GetFields() ([]string, error)              { return m.fields, nil }
func (m *memTable) GetFieldLinks() (map[string]string, error) { return map[string]string{}, nil }
func (m *memTable) FetchRow(id string) (*gripper.BaseRow, error) {
	for _, r := range m.rows {
		if r.Key == id {
			return r, nil
		}
	}
	return nil, fmt.Errorf("not found")
}
func (m *memTable) FetchRows(ctx context.Context) (chan *gripper.BaseRow, error) {
	c := make(chan *gripper.BaseRow, len(m.rows))
	for _, r := range m.rows {
		c <- r
	}
	close(c)
	return c, nil
}
func (m *memTable) FetchMatchRows(ctx context.Context, field, value string) (chan *gripper.BaseRow, error) {
	c := make(chan *gripper.BaseRow, len(m.rows))
	for _, r := range m.rows {
		if v, ok := r.Value[field].(string); ok && v == value {
			c <- r
		}
	}
	close(c)
	return c, nil
}

type c15Case struct {
	Name    string
	Tables  map[string]*memTable
	Mapping gripper.GraphConfig
	Graph   *gmodel.Graph // materialised per the property's definition
}

func row(k string, kv ...any) *gripper.BaseRow {
	m := map[string]interface{}{}
	for i := 0; i+1 < len(kv); i += 2 {
		m[kv[i].(string)] = kv[i+1]
	}
	return &gripper.BaseRow{Key: k, Value: m}
}

func c15Cases(thorough bool) []c15Case {
	t1 := &memTable{rows: []*gripper.BaseRow{row("r1", "name", "a", "n", 1.0), row("r2", "name", "b")}, fields: []string{"name"}}
	t2 := &memTable{rows: []*gripper.BaseRow{row("s1", "k", "x"), row("s2")}, fields: []string{"k"}}
	linkKinds := map[string]*gripper.BaseRow{
		"r1-s1":         row("l1", "f", "r1", "t", "s1", "w", 1.0),
		"r1-s2":         row("l2", "f", "r1", "t", "s2"),
		"r2-s1":         row("l3", "f", "r2", "t", "s1"),
		"missing-to":    row("l4", "f", "r1"),
		"empty-to":      row("l5", "f", "r2", "t", ""),
		"dangling-to":   row("l6", "f", "r1", "t", "zz"),
		"repeat":        row("l7", "f", "r1", "t", "s1", "w", 2.0),
		"empty-from":    row("l8", "f", "", "t", "s1"),
		"dangling-from": row("l9", "f", "qq", "t", "s2"),
	}
	variants := [][]string{
		{}, {"r1-s1"}, {"r1-s1", "r1-s2", "r2-s1"}, {"r1-s1", "missing-to"}, {"r2-s1", "empty-to"}, {"r1-s1", "dangling-to"},
		{"r1-s1", "repeat"}, {"r1-s2", "empty-from"}, {"dangling-from", "r2-s1"}, {"r1-s1", "r1-s2", "repeat", "dangling-to", "missing-to"},
	}
	if thorough {
		keys := []string{"r1-s1", "r1-s2", "r2-s1", "missing-to", "empty-to", "dangling-to", "repeat", "empty-from", "dangling-from"}
		for i := range keys {
			for j := i + 1; j < len(keys); j++ {
				variants = append(variants, []string{keys[i], keys[j]})
			}
		}
	}
	type mapping struct {
		name  string
		verts map[string][2]string // prefix -> (table, label)
		edges map[string][5]string // name -> (fromPrefix, toPrefix, label, fromField, toField)
	}
	maps := []mapping{
		{"distinct-labels", map[string][2]string{"A:": {"T1", "P"}, "B:": {"T2", "Q"}}, map[string][5]string{"e1": {"A:", "B:", "x", "f", "t"}}},
		{"shared-label", map[string][2]string{"A:": {"T1", "P"}, "B:": {"T2", "P"}}, map[string][5]string{"e1": {"A:", "B:", "x", "f", "t"}}},
		{"prefix-of-prefix", map[string][2]string{"A:": {"T1", "P"}, "A:B:": {"T2", "Q"}}, map[string][5]string{"e1": {"A:", "A:B:", "x", "f", "t"}}},
		{"reverse-direction", map[string][2]string{"A:": {"T1", "P"}, "B:": {"T2", "Q"}}, map[string][5]string{"e1": {"B:", "A:", "x", "t", "f"}}},
		{"two-edge-types", map[string][2]string{"A:": {"T1", "P"}, "B:": {"T2", "Q"}}, map[string][5]string{"e1": {"A:", "B:", "x", "f", "t"}, "e2": {"B:", "A:", "y", "t", "f"}}},
		{"same-label-both-directions", map[string][2]string{"A:": {"T1", "P"}, "B:": {"T2", "Q"}}, map[string][5]string{"e1": {"A:", "B:", "x", "f", "t"}, "e2": {"B:", "A:", "x", "t", "f"}}},
		// one hop that reaches rows of two tables mapped to the same label (second edge type: self links of T1 rows)
		{"shared-label-mixed-targets", map[string][2]string{"A:": {"T1", "P"}, "B:": {"T2", "P"}}, map[string][5]string{"e1": {"A:", "B:", "x", "f", "t"}, "e2": {"A:", "A:", "y", "f", "f"}}},
		// two link tables with the SAME edge label leaving the same vertex table for different vertex tables
		{"one-label-two-link-tables", map[string][2]string{"A:": {"T1", "P"}, "B:": {"T2", "Q"}}, map[string][5]string{"e1": {"A:", "B:", "x", "f", "t"}, "e2": {"A:", "A:", "x", "f", "f"}}},
		{"shared-label-mixed-targets-prefix-lengths", map[string][2]string{"A:": {"T1", "P"}, "BB:": {"T2", "P"}}, map[string][5]string{"e1": {"A:", "BB:", "x", "f", "t"}, "e2": {"A:", "A:", "y", "f", "f"}}},
	}
	var out []c15Case
	for _, lv := range variants {
		lt := &memTable{fields: []string{"f", "t"}}
		for _, k := range lv {
			lt.rows = append(lt.rows, linkKinds[k])
		}
		for _, m := range maps {
			c := c15Case{Name: fmt.Sprintf("links[%s]/%s", strings.Join(lv, ","), m.name),
				Tables:  map[string]*memTable{"T1": t1, "T2": t2, "L": lt},
				Mapping: gripper.GraphConfig{Vertices: map[string]gripper.VertexConfig{}, Edges: map[string]gripper.EdgeConfig{}},
				Graph:   &gmodel.Graph{V: map[string]gmodel.Elem{}, E: map[string]gmodel.Elem{}}}
			tabs := map[string]*memTable{"T1": t1, "T2": t2}
			for prefix, tl := range m.verts {
				c.Mapping.Vertices[prefix] = gripper.VertexConfig{Gid: prefix, Label: tl[1], Data: gripper.ElementConfig{Source: "src", Collection: tl[0]}}
				for _, r := range tabs[tl[0]].rows {
					d := map[string]any{}
					for k, v := range r.Value {
						d[k] = v
					}
					c.Graph.V[prefix+r.Key] = gmodel.Elem{ID: prefix + r.Key, Label: tl[1], Data: d}
				}
			}
			for name, e := range m.edges {
				c.Mapping.Edges[name] = gripper.EdgeConfig{Gid: name, From: e[0], To: e[1], Label: e[2], Data: gripper.ElementConfig{Source: "src", Collection: "L", FromField: e[3], ToField: e[4]}}
				for _, r := range lt.rows {
					from, _ := r.Value[e[3]].(string)
					to, _ := r.Value[e[4]].(string)
					if from == "" || to == "" {
						continue
					}
					d := map[string]any{}
					for k, v := range r.Value {
						d[k] = v
					}
					id := e[0] + from + "-" + e[2] + "-" + e[1] + to
					c.Graph.E[name+"/"+r.Key] = gmodel.Elem{Edge: true, ID: id, From: e[0] + from, To: e[1] + to, Label: e[2], Data: d}
				}
			}
			out = append(out, c)
		}
	}
	return out
}

func c15Programs(thorough bool) [][]refsem.Step {
	st := func(op string, strs ...string) refsem.Step { return refsem.Step{Op: op, Strs: strs} }
	// "@a" / "@b" / "@e" stand for the id of the first row of the first / second vertex table and of one edge
	// under the mapping of the case at hand (c15Resolve): id starts must hit real ids under every mapping,
	// also when one prefix is a prefix of the other
	starts := []refsem.Step{st("V"), st("V", "@a"), st("V", "@b"), st("V", "@a", "zz", "@b"), st("E"), st("E", "@e"), st("E", "@e2"), st("E", "@e", "@e2")}
	alpha := []refsem.Step{
		st("hasLabel", "P"), st("hasLabel", "Q"), st("hasLabel", "P", "Q"), st("hasLabel", "ZZ"), st("hasLabel", "x"), st("hasLabel", "x", "y"),
		st("out"), st("in"), st("both"), st("outE"), st("inE"), st("bothE"), st("out", "x"), st("in", "y"), st("outE", "x"),
		st("hasId", "@a"), {Op: "has", Has: gripql.Eq("name", "a")}, {Op: "has", Has: gripql.Eq("_label", "P")},
		st("as", "m1"), st("select", "m1"), st("count"), st("distinct"), st("fields"), st("path"), {Op: "limit", A: 1},
	}
	maxLen := 3
	if thorough {
		maxLen = 4
	}
	var out [][]refsem.Step
	level := [][]refsem.Step{}
	for _, s := range starts {
		level = append(level, []refsem.Step{s})
	}
	out = append(out, level...)
	for l := 2; l <= maxLen; l++ {
		var next [][]refsem.Step
		for _, p := range level {
			for _, s := range alpha {
				np := append(append([]refsem.Step{}, p...), s)
				if ty, _, _ := refsem.TypeOf(np); ty == refsem.WellTyped {
					next = append(next, np)
				}
			}
		}
		out = append(out, next...)
		level = next
	}
	return out
}

type c15Worker struct {
	cases []c15Case
	progs [][]refsem.Step
	chunk int
}

func newC15Worker(tier string) *c15Worker {
	th := tier == "thorough"
	return &c15Worker{cases: c15Cases(th), progs: c15Programs(th), chunk: 150}
}

func (w *c15Worker) chunks() int { return (len(w.progs) + w.chunk - 1) / w.chunk }
func (w *c15Worker) N() int      { return len(w.cases) * w.chunks() }
func (w *c15Worker) Describe(i int) string {
	return fmt.Sprintf("%s, programs %d..", w.cases[i/w.chunks()].Name, (i%w.chunks())*w.chunk)
}

func c15Serve(c c15Case) (gdbi.GraphInterface, func(), error) {
	drivers := map[string]gripper.Driver{}
	for n, t := range c.Tables {
		drivers[n] = t
	}
	srv := grpc.NewServer()
	gripper.RegisterGRIPSourceServer(srv, gripper.NewSimpleTableServer(drivers))
	lis := bufconn.Listen(1 << 20)
	go srv.Serve(lis)
	conn, err := grpc.Dial("bufnet", grpc.WithContextDialer(func(ctx context.Context, s string) (net.Conn, error) { return lis.Dial() }),
		grpc.WithTransportCredentials(insecure.NewCredentials()))
	if err != nil {
		return nil, nil, err
	}
	tg, err := gripper.NewTabularGraph(c.Mapping, map[string]gripper.GRIPSourceClient{"src": gripper.NewGRIPSourceClient(conn)})
	if err != nil {
		conn.Close()
		srv.Stop()
		return nil, nil, err
	}
	return tg, func() { conn.Close(); srv.Stop() }, nil
}

func caseFeatures(c c15Case) string {
	n := c.Name
	var f []string
	for _, k := range []string{"missing-to", "empty-to", "dangling-to", "repeat", "empty-from", "dangling-from"} {
		if strings.Contains(n, k) {
			f = append(f, k)
		}
	}
	// "repeat" is the feature "two link rows generate the same edge id" (ids are built from the endpoints
	// only): it also arises without the literal repeat row, e.g. when an edge type reads both endpoints from
	// one column and two rows share its value
	ids := map[string]int{}
	for _, e := range c.Graph.E {
		ids[e.ID]++
	}
	for _, k := range ids {
		if k > 1 && !strings.Contains(strings.Join(f, "+"), "repeat") {
			f = append(f, "repeat")
			break
		}
	}
	m := n[strings.LastIndex(n, "/")+1:]
	if len(f) == 0 {
		return m + "|plain-links"
	}
	return m + "|" + strings.Join(f, "+")
}

// c15Resolve replaces the id placeholders of a program by the ids they denote in case c.
func c15Resolve(p []refsem.Step, c c15Case) []refsem.Step {
	ids := map[string]string{"@e": "zz-x-zz", "@e2": "zz-x-zz"}
	for prefix, vc := range c.Mapping.Vertices {
		switch vc.Data.Collection {
		case "T1":
			ids["@a"] = prefix + "r1"
		case "T2":
			ids["@b"] = prefix + "s1"
		}
	}
	var eids []string
	for _, e := range c.Graph.E {
		eids = append(eids, e.ID)
	}
	sort.Strings(eids)
	if len(eids) > 0 {
		ids["@e"] = eids[0]
		ids["@e2"] = eids[len(eids)-1] // with several link tables the first and the last id come from different tables
	}
	out := make([]refsem.Step, len(p))
	for i, s := range p {
		out[i] = s
		if len(s.Strs) > 0 {
			out[i].Strs = append([]string{}, s.Strs...)
			for j, v := range out[i].Strs {
				if r, ok := ids[v]; ok {
					out[i].Strs[j] = r
				}
			}
		}
	}
	return out
}

func (w *c15Worker) Item(idx int, emit func(vf.Violation), st sweep.Stats, sample func(string)) {
	c := w.cases[idx/w.chunks()]
	ch := idx % w.chunks()
	gi, stop, err := c15Serve(c)
	if err != nil {
		emit(vf.Violation{Sig: "setup|" + caseFeatures(c), Detail: fmt.Sprintf("%s: NewTabularGraph failed: %v", c.Name, err), Replay: c.Name})
		return
	}
	defer stop()
	if ch == 0 {
		// write calls are refused
		st["write_calls"] += 5
		if gi.AddVertex([]*gdbi.Vertex{{ID: "A:new", Label: "P"}}) == nil || gi.AddEdge([]*gdbi.Edge{{ID: "e", From: "A:r1", To: "B:s1", Label: "x"}}) == nil ||
			gi.DelVertex("A:r1") == nil || gi.DelEdge("A:r1-x-B:s1") == nil {
			emit(vf.Violation{Sig: "write-accepted", Detail: c.Name + ": a write call on the read-only graph returned no error", Replay: c.Name})
		}
		bc := make(chan *gdbi.GraphElement)
		close(bc)
		if gi.BulkAdd(bc) == nil {
			emit(vf.Violation{Sig: "write-accepted|BulkAdd", Detail: c.Name + ": BulkAdd returned no error", Replay: c.Name})
		}
	}
	for pi := ch * w.chunk; pi < (ch+1)*w.chunk && pi < len(w.progs); pi++ {
		p := c15Resolve(w.progs[pi], c)
		ref := refsem.Eval(c.Graph, p)
		if ref.Undefined != "" {
			st["undefined_by_documentation"]++
			continue
		}
		res := qrun.Run(gi.Compiler(), refsem.Stmts(p), 10*time.Second)
		st["runs"]++
		rep := map[string]any{"case": c.Name, "program": refsem.ProgName(p)}
		if res.CompileErr != nil {
			emit(vf.Violation{Sig: "rejected|" + opSeq(p), Detail: fmt.Sprintf("%s: %s rejected: %v", c.Name, refsem.ProgName(p), res.CompileErr), Replay: rep})
			continue
		}
		if res.TimedOut {
			st["no_answer"]++
			size := "few-rows"
			if len(res.Rows) >= 300 {
				size = "many-rows" // enough rows in flight for the fan-in deadlock of both()/bothE() (C07's known finding)
			}
			emit(vf.Violation{Sig: fmt.Sprintf("no-answer|%s|%s|%s", opSeq(p), caseFeatures(c), size), Detail: fmt.Sprintf("%s: %s produced nothing for 10 s (%d rows so far)", c.Name, refsem.ProgName(p), len(res.Rows)), Replay: rep})
			// the hung pipeline keeps the connection busy: start over
			stop()
			gi, stop, err = c15Serve(c)
			if err != nil {
				return
			}
			continue
		}
		var got []string
		for _, r := range res.Rows {
			got = append(got, refsem.CanonJSON(r))
		}
		sort.Strings(got)
		if len(got) > 0 {
			st["runs_with_rows"]++
		}
		bad, detail := "", ""
		switch {
		case ref.Trunc && ref.TruncThenCount:
			want := refsem.Canon(map[string]any{"count": float64(ref.TruncCount)})
			if len(got) != 1 || got[0] != want {
				bad, detail = "count-after-truncation", fmt.Sprintf("expected %s, got %v", want, got)
			}
		case ref.Trunc:
			if len(got) != ref.TruncCount {
				bad, detail = "truncation-count", fmt.Sprintf("expected %d rows, got %v", ref.TruncCount, got)
			}
		default:
			if strings.Join(got, "\n") != strings.Join(ref.Rows, "\n") {
				bad = listDirection("["+strings.Join(ref.Rows, " ")+"]", "["+strings.Join(got, " ")+"]")
				detail = fmt.Sprintf("mapping defines: %v\n gripper graph returns: %v", ref.Rows, got)
			}
		}
		if bad != "" {
			// prefix-minimal only
			minimal := true
			for k := 1; k < len(p); k++ {
				if ty, _, _ := refsem.TypeOf(p[:k]); ty != refsem.WellTyped {
					continue
				}
				r2 := refsem.Eval(c.Graph, p[:k])
				if r2.Undefined != "" || r2.Trunc {
					continue
				}
				g2 := qrun.Run(gi.Compiler(), refsem.Stmts(p[:k]), 10*time.Second)
				var gg []string
				for _, r := range g2.Rows {
					gg = append(gg, refsem.CanonJSON(r))
				}
				sort.Strings(gg)
				if g2.TimedOut || strings.Join(gg, "\n") != strings.Join(r2.Rows, "\n") {
					minimal = false
					break
				}
			}
			if !minimal {
				st["non_minimal_disagreements"]++
				continue
			}
			emit(vf.Violation{Sig: fmt.Sprintf("rows|%s|%s|%s", opSeq(p), bad, caseFeatures(c)), Detail: fmt.Sprintf("%s: %s: %s", c.Name, refsem.ProgName(p), detail), Replay: rep})
		}
		if pi%211 == 0 && ch == 1 {
			sample(c.Name + ": " + refsem.ProgName(p))
		}
	}
}

// C15 runs the check.
func C15(tier string, args []string) int {
	w := newC15Worker(tier)
	if sweep.IsWorker(args) {
		return sweep.RunWorker(w, args)
	}
	run := vf.NewRun("C15", tier, "exploration")
	budget := 12 * time.Minute
	if tier == "thorough" {
		budget = 45 * time.Minute
	}
	res := sweep.Run(run, "C15", tier, w, time.Now().Add(budget), 300*time.Second, func(idx int, stderr string, hang bool) {
		kind := "crash"
		if hang {
			kind = "worker-hang"
		}
		run.Report(vf.Violation{Sig: kind + "|" + sweep.PanicSite(stderr), Detail: fmt.Sprintf("worker %s while running %s: %s", kind, w.Describe(idx), sweep.PanicSite(stderr)), Replay: w.Describe(idx)})
	})
	run.Coverage["evaluations"] = res.Stats["runs"] + res.Stats["write_calls"]
	run.Coverage["table_set_x_mapping_cases"] = len(w.cases)
	run.Coverage["programs"] = len(w.progs)
	run.Coverage["runs"] = res.Stats["runs"]
	run.Coverage["distinct_nontrivial"] = res.Stats["runs_with_rows"]
	run.Coverage["no_answer"] = res.Stats["no_answer"]
	run.Coverage["undefined_by_documentation_skipped"] = res.Stats["undefined_by_documentation"]
	run.Coverage["non_minimal_disagreements"] = res.Stats["non_minimal_disagreements"]
	run.Coverage["worker_crashes"] = res.Crashes
	run.Coverage["exhaustive"] = !res.DeadlineHit && res.Done >= w.N()
	run.Coverage["rule"] = "10 link-table contents (36 more pairs when thorough) x 9 mappings, each served by the real SimpleTableServicer over bufconn and exposed by gripper.NewTabularGraph; every well-typed program up to the length bound over 5 starts and 25 step instances; reference = refsem on the graph materialised per the property's definition (edges keyed per link row, so repeated links stay two edges)"
	s := res.Samples
	if len(s) == 0 {
		s = []string{w.cases[1].Name + ": V().hasLabel(P).out()"}
	}
	run.Coverage["samples"] = s
	run.Assume = []string{
		"materialisation rule from the property: one vertex per table row (id = prefix + row id, mapped label, row as data), one edge per link row whose endpoint fields are non-empty strings (id = <from id>-<label>-<to id>, row as data), edges may dangle",
		"the reference interpreter refsem is the same one C01 validates against kvgraph, which closes the three-way comparison of the design",
		"a traversal that gives no answer within 10 s on these 2..9-row tables is reported (the graph does not return what the mapping describes)",
	}
	return run.Finish()
}
