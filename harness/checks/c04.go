package checks

// C04: reopening a database (cleanly or after a crash) preserves a consistent graph.
//
// Part A (clean reopen, model checking): the C03 search with an extra "Reopen"
// operation (a new kvgraph on the same store) in the alphabet, so a restart is
// inserted at every position of every history up to the depth, and everything
// observed afterwards - including label-indexed lookups of elements written
// after the reopen - must equal the never-stopped model.
//
// Part B (crash, fault enumeration): for every state of a breadth-first search
// and every mutating operation, the call is aborted before each of the
// top-level key-value writes it issues; the surviving store is reopened and
// must be (1) self-consistent: the whole battery equals the battery of the
// graph reconstructed from the surviving elements themselves (no adjacency or
// label-index entry without its element, no element missing from an index),
// (2) every element not addressed by the in-flight call is as acknowledged
// before, (3) every addressed element is in its before- or after-state.

import (
	"fmt"
	"sort"
	"strings"
	"sync"
	"time"

	"github.com/bmeg/grip/gdbi"
	"github.com/bmeg/grip/kvgraph"

	"verif/harness/gmodel"
	"verif/harness/histmc"
	"verif/harness/memkv"
	"verif/harness/vf"
)

func faultHandle() (*dbHandle, *memkv.Fault) {
	kv := memkv.New()
	f := memkv.NewFault(kv)
	return &dbHandle{db: kvgraph.NewKVGraph(f), dump: kv.DumpString,
		reopen: func() gdbi.GraphDB { return kvgraph.NewKVGraph(f) }}, f
}

// worldFromObs reconstructs the graph that the lookups of an observation describe.
func worldFromObs(o gmodel.Obs, u gmodel.Universe) (gmodel.World, error) {
	w := gmodel.World{}
	for _, gn := range u.Graphs {
		if o["graphs"]["open:"+gn] != "ok" {
			continue
		}
		g := &gmodel.Graph{V: map[string]gmodel.Elem{}, E: map[string]gmodel.Elem{}}
		w[gn] = g
	}
	return w, nil
}

type crashStats struct {
	mu        sync.Mutex
	runs      int
	points    int
	opsWithN  map[int]int
	outcomes  map[string]bool
	samples   []string
	nontriv   map[string]bool
	maxPoints int
}

// crashCheck enumerates the crash points of op in the state reached by hist.
func crashCheck(run *vf.Run, u gmodel.Universe, s ghState, op gmodel.Op, cs *crashStats) {
	if op.Kind == "Reopen" {
		return
	}
	// count the top-level writes of the call
	h, f := faultHandle()
	for _, o := range s.hist {
		gmodel.ApplyDB(h.db, o)
	}
	f.Reset()
	_, pan := gmodel.ApplyDB(h.db, op)
	if pan != "" {
		return // reported by part A
	}
	n := f.N
	out := s.world.Apply(op)
	cs.mu.Lock()
	cs.opsWithN[n]++
	if n > cs.maxPoints {
		cs.maxPoints = n
	}
	cs.mu.Unlock()
	hist := append(append([]gmodel.Op{}, s.hist...), op)
	for ii := 0; ii < 2*n; ii++ {
		// every crash point twice: as it is, and followed by the client repeating the interrupted request
		i, retry := ii/2, ii%2 == 1
		h, f := faultHandle()
		for _, o := range s.hist {
			gmodel.ApplyDB(h.db, o)
		}
		f.Reset()
		f.Armed, f.CrashAt = true, i
		crashed := false
		func() {
			defer func() {
				if r := recover(); r != nil {
					if _, ok := r.(memkv.CrashSignal); ok {
						crashed = true
						return
					}
					panic(r)
				}
			}()
			// ApplyDB recovers panics itself and reports them as strings, so call through a thin copy
			applyNoRecover(h.db, op)
		}()
		f.Reset()
		if !crashed {
			continue
		}
		db := h.reopen()
		obs, opan := gmodel.ObserveDB(db, u)
		rep := map[string]any{"history": histString(hist), "crash_before_write": i, "writes_of_call": n, "ops": hist, "retried": retry}
		rt := ""
		if retry {
			// the natural next event: the client, which got no answer, sends the same request again
			if _, pan := gmodel.ApplyDB(db, op); pan != "" {
				run.Report(vf.Violation{Sig: "crash|" + op.Kind + "|after-retry|panic", Detail: fmt.Sprintf("history [%s], crash before write %d/%d of the last call, reopen, the same call again: panic: %s", histString(hist), i, n, pan), Replay: rep})
				continue
			}
			obs, opan = gmodel.ObserveDB(db, u)
			rt = "after-retry|"
		}
		cs.mu.Lock()
		cs.runs++
		cs.points++
		if len(cs.samples) < 4 && n >= 3 && i == 1 && cs.runs%53 == 0 {
			cs.samples = append(cs.samples, fmt.Sprintf("[%s] crash before write %d of %d", histString(hist), i, n))
		}
		cs.mu.Unlock()
		if opan != "" {
			run.Report(vf.Violation{Sig: "crash|" + op.Kind + "|observe-panic", Detail: fmt.Sprintf("history [%s], crash before write %d/%d of the last call, reopen: observation panicked: %s", histString(hist), i, n, opan), Replay: rep})
			continue
		}
		// (1) self-consistency
		rec := reconstruct(obs, u)
		consistent := true
		for _, m := range untainted(gmodel.Diff(rec.Observe(u), obs), s.taint) {
			if retry && listDirection(m.Want, m.Got) == "extra" {
				// the retried call has completed: C03's listed defects (label index never shrinks, a re-added edge
				// keeps its old keys) leave EXTRA entries behind a completed call and are charged there, not here;
				// the retry variant charges entries that are missing or different
				continue
			}
			consistent = false
			run.Report(vf.Violation{Sig: fmt.Sprintf("crash|%s|%sinconsistent|%s|%s", op.Kind, rt, m.Comp, listDirection(m.Want, m.Got)),
				Detail: fmt.Sprintf("history [%s], crash before write %d/%d of the last call, reopen%s: %s %s is %s but the surviving elements imply %s", histString(hist), i, n, map[bool]string{true: ", the same call again", false: ""}[retry], m.Comp, m.Item, m.Got, m.Want),
				Replay: rep})
		}
		// (2)+(3) per element: before or after state
		if !retry && !(s.taint["lookup-v"] || s.taint["lookup-e"]) {
			for _, gn := range u.Graphs {
				for _, kind := range []string{"lookup-v", "lookup-e"} {
					ids := u.VIDs
					if kind == "lookup-e" {
						ids = u.EIDs
					}
					for _, id := range ids {
						got, ok := obs[kind][gn+":"+id]
						if !ok {
							got = "<graph-closed>"
						}
						allowed := map[string]bool{}
						for _, w := range append([]gmodel.World{s.world}, out.Worlds...) {
							wo := w.Observe(u)
							v, ok := wo[kind][gn+":"+id]
							if !ok {
								// the graph is gone in this world: while it is being deleted an
								// element may already be absent although the graph is still listed
								v = "<graph-closed>"
								allowed["nil"] = true
							}
							allowed[v] = true
						}
						if !allowed[got] {
							run.Report(vf.Violation{Sig: fmt.Sprintf("crash|%s|element-neither-before-nor-after|%s", op.Kind, kind),
								Detail: fmt.Sprintf("history [%s], crash before write %d/%d, reopen: %s %s:%s is %s; allowed %v", histString(hist), i, n, kind, gn, id, got, keysOf(allowed)),
								Replay: rep})
						}
					}
				}
			}
		}
		// (4) "every later operation behaves as on a server that never stopped": write a fresh vertex and a
		// fresh edge into every graph that survived, then everything observable (label scans and label
		// listings included) must again equal what the surviving elements plus the new ones imply
		u2 := u
		u2.VIDs = append(append([]string{}, u.VIDs...), "p")
		u2.EIDs = append(append([]string{}, u.EIDs...), "pe")
		rec2 := rec.Clone()
		probed := false
		for _, gn := range u.Graphs {
			if _, ok := rec2[gn]; !ok || !consistent {
				continue // a store that is already inconsistent has been reported by (1)
			}
			for _, pop := range []gmodel.Op{
				{Kind: "AddVertex", G: gn, Elems: []gmodel.Elem{{ID: "p", Label: "P"}}},
				{Kind: "AddEdge", G: gn, Elems: []gmodel.Elem{{Edge: true, ID: "pe", From: "p", To: "p", Label: "x"}}},
			} {
				if err, pan := gmodel.ApplyDB(db, pop); err != nil || pan != "" {
					run.Report(vf.Violation{Sig: "crash|" + op.Kind + "|post-crash-write-refused", Detail: fmt.Sprintf("history [%s], crash before write %d/%d, reopen: %s fails: %v %s", histString(hist), i, n, pop, err, pan), Replay: rep})
					continue
				}
				rec2 = rec2.Apply(pop).Worlds[0]
				probed = true
			}
		}
		if probed {
			obs2, opan2 := gmodel.ObserveDB(db, u2)
			if opan2 != "" {
				run.Report(vf.Violation{Sig: "crash|" + op.Kind + "|post-crash-write|observe-panic", Detail: fmt.Sprintf("history [%s], crash before write %d/%d, reopen, new vertex p and edge pe: observation panicked: %s", histString(hist), i, n, opan2), Replay: rep})
			} else {
				for _, m := range untainted(gmodel.Diff(rec2.Observe(u2), obs2), s.taint) {
					if retry && listDirection(m.Want, m.Got) == "extra" {
						continue
					}
					run.Report(vf.Violation{Sig: fmt.Sprintf("crash|%s|%spost-crash-write|%s|%s", op.Kind, rt, m.Comp, listDirection(m.Want, m.Got)),
						Detail: fmt.Sprintf("history [%s], crash before write %d/%d of the last call, reopen (retried=%v), then a new vertex p and edge pe in every surviving graph: %s %s is %s but the elements imply %s", histString(hist), i, n, retry, m.Comp, m.Item, m.Got, m.Want),
						Replay: rep})
				}
			}
		}
		cs.mu.Lock()
		cs.outcomes[rec.Key()] = true
		if rec.Key() != s.world.Key() {
			cs.nontriv[histString(hist)+fmt.Sprint(i)] = true
		}
		cs.mu.Unlock()
	}
}

func keysOf(m map[string]bool) []string {
	var o []string
	for k := range m {
		o = append(o, k)
	}
	sort.Strings(o)
	return o
}

func applyNoRecover(db gdbi.GraphDB, op gmodel.Op) {
	switch op.Kind {
	case "AddGraph":
		db.AddGraph(op.G)
		return
	case "DeleteGraph":
		db.DeleteGraph(op.G)
		return
	}
	gi, err := db.Graph(op.G)
	if err != nil {
		return
	}
	switch op.Kind {
	case "AddVertex":
		var l []*gdbi.Vertex
		for _, e := range op.Elems {
			l = append(l, e.ToGdbi())
		}
		gi.AddVertex(l)
	case "AddEdge":
		var l []*gdbi.Edge
		for _, e := range op.Elems {
			l = append(l, e.ToGdbi())
		}
		gi.AddEdge(l)
	case "BulkAdd":
		c := make(chan *gdbi.GraphElement, len(op.Elems))
		for _, e := range op.Elems {
			if e.Edge {
				c <- &gdbi.GraphElement{Edge: e.ToGdbi(), Graph: op.G}
			} else {
				c <- &gdbi.GraphElement{Vertex: e.ToGdbi(), Graph: op.G}
			}
		}
		close(c)
		gi.BulkAdd(c)
	case "DelVertex":
		gi.DelVertex(op.ID)
	case "DelEdge":
		gi.DelEdge(op.ID)
	}
}

// reconstruct builds the graph described by the surviving elements themselves:
// the listings give the elements (parsed back from their canonical form).
func reconstruct(o gmodel.Obs, u gmodel.Universe) gmodel.World {
	w := gmodel.World{}
	glist := o["graphs"]["list"]
	for _, gn := range strings.Fields(strings.Trim(glist, "[]")) {
		w[gn] = &gmodel.Graph{V: map[string]gmodel.Elem{}, E: map[string]gmodel.Elem{}}
	}
	for _, gn := range u.Graphs {
		g, ok := w[gn]
		if !ok {
			continue
		}
		for _, c := range strings.Fields(strings.Trim(o["list-v"][gn], "[]")) {
			if e, ok := gmodel.ParseCanon(c); ok {
				g.V[e.ID] = e
			}
		}
		for _, c := range strings.Fields(strings.Trim(o["list-e"][gn], "[]")) {
			if e, ok := gmodel.ParseCanon(c); ok {
				g.E[e.ID] = e
			}
		}
	}
	return w
}

// C04 runs the check.
func C04(tier string) int {
	run := vf.NewRun("C04", tier, "fault_enumeration", "C03") // C03's known sequential defects are not charged a second time
	thorough := tier == "thorough"
	depthA, depthB := 5, 4
	budget := 150 * time.Second
	if thorough {
		depthA, depthB = 7, 6
		budget = 25 * time.Minute
	}
	deadline := time.Now().Add(budget)
	u := c03Universe(thorough)
	// ---- part A: clean reopen at every position
	gcA := &graphChecker{run: run, u: u, prop: "C04", outcomes: map[string]bool{}, nontriv: map[string]bool{}, memKey: true}
	gcA.open = memHandle
	opsA := append([]gmodel.Op{{Kind: "Reopen"}}, c03Ops(false)...)
	init := ghState{world: gmodel.World{}, taint: map[string]bool{}}
	stA := histmc.BFS(init, "init", opsA, depthA, deadline, gcA.step)

	// ---- part B: crash points
	cs := &crashStats{opsWithN: map[int]int{}, outcomes: map[string]bool{}, nontriv: map[string]bool{}}
	gcB := &graphChecker{run: vf.NewRun("C04", tier, "fault_enumeration"), u: u, prop: "C04", outcomes: map[string]bool{}, nontriv: map[string]bool{}}
	gcB.run = silentRun() // part B re-walks C03's space only to reach states; its step-level findings belong to C03
	gcB.open = memHandle
	opsB := c03Ops(false)
	stB := histmc.BFS(init, "init", opsB, depthB, deadline, func(s ghState, op gmodel.Op) histmc.Succ[ghState] {
		crashCheck(run, u, s, op, cs)
		return gcB.step(s, op)
	})

	run.Coverage["evaluations"] = cs.runs + stA.Transitions
	run.Coverage["distinct_nontrivial"] = len(cs.nontriv)
	run.Coverage["rule"] = "part A: every history over {C03 alphabet + Reopen} up to depth A on a fresh store (restart at every position); part B: every state of the depth-B search x every mutating operation x a crash before each top-level KV write of that call, then reopen; non-trivial = crash run whose surviving graph differs from the pre-call graph"
	run.Coverage["crash_runs"] = cs.runs
	run.Coverage["crash_points_per_call_histogram"] = cs.opsWithN
	run.Coverage["max_writes_per_call"] = cs.maxPoints
	run.Coverage["crash_distinct_surviving_graphs"] = len(cs.outcomes)
	run.Coverage["reopen_states"] = stA.States
	run.Coverage["reopen_transitions"] = stA.Transitions
	run.Coverage["reopen_depth_completed"] = stA.DepthDone
	run.Coverage["reopen_depth_requested"] = depthA
	run.Coverage["crash_state_depth_completed"] = stB.DepthDone
	run.Coverage["crash_state_depth_requested"] = depthB
	run.Coverage["crash_states"] = stB.States
	run.Coverage["exhaustive"] = stA.Exhaustive && stB.Exhaustive && stA.DepthDone >= depthA && stB.DepthDone >= depthB
	smp := append([]string{}, cs.samples...)
	smp = append(smp, gcA.samples...)
	if len(smp) == 0 {
		smp = []string{"AddGraph(g1); AddEdge(g1,[E(e:a->b:x:{})]); DelEdge(g1,e) crash before write 1 of 3"}
	}
	run.Coverage["samples"] = smp
	run.Assume = []string{
		"crash granularity = the top-level KVInterface writes (Set, Delete, DeletePrefix, one committed Update, one committed BulkWrite), each atomic; torn writes below that call are excluded by the property text",
		"store is memkv (validated against the real drivers by C10); reopen = a new kvgraph.NewKVGraph on the same store",
		"self-consistency is judged by rebuilding the graph from the surviving listings and requiring every other observation (lookups, adjacency under 4 label filters, label scans, label lists) to equal that graph's; components already corrupted by a known C03 defect in the pre-crash history are masked",
	}
	return run.Finish()
}

// silentRun is a Run whose reports are dropped at the end (never Finish()ed).
func silentRun() *vf.Run { return vf.NewRun("C03", "quick", "model_checking") }
