//go:build vsched

package checks

// Shared driver for the scheduler-based checks (engine gosched): every scenario
// is a closed harness body executed on the REAL (instrumented) code under the
// controlled scheduler; the explorer enumerates its interleavings by stateless
// DFS with a causal-hash state cache and (optionally) a preemption bound.

import (
	"fmt"
	"os"
	"sort"
	"strings"
	"time"

	vs "github.com/bmeg/grip/verifsched"

	"verif/harness/sweep"
	"verif/harness/vf"
)

type schedScenario struct {
	Name    string
	Body    func()
	Want    []string // expected observations (sorted multiset) - nil: computed by Expect
	Ordered bool     // observations must come in exactly this order
	Bound   int      // -1 unbounded
	CapMap  func(n int, site string) int
	Budget  time.Duration
	MaxExec int
	// AllowStatus lists terminal statuses other than "done" that are acceptable (none by default)
	Class string // signature class of the scenario
	// Accept, when set, replaces the comparison with Want: it returns "" or a description of what is wrong
	Accept func(out []string) string
	// Race switches on the happens-before race detector over the accesses hooked by instr -race
	Race bool
}

type schedWorker struct {
	prop      string
	scenarios []schedScenario
}

func (w *schedWorker) N() int                { return len(w.scenarios) }
func (w *schedWorker) Describe(i int) string { return w.scenarios[i].Name }

func (w *schedWorker) Item(idx int, emit func(vf.Violation), st sweep.Stats, sample func(string)) {
	sc := w.scenarios[idx]
	if os.Getenv("VERIF_RACE") == "1" {
		sc.Race = true // exploratory: switch the race detector on for a check that does not claim it (C07, C12, C13)
	}
	want := append([]string{}, sc.Want...)
	if !sc.Ordered {
		sort.Strings(want)
	}
	wantS := strings.Join(want, ",")
	ex := &vs.Explorer{UseCache: true, Bound: sc.Bound, MaxExecs: sc.MaxExec, Opts: vs.Options{CapMap: sc.CapMap, Race: sc.Race}}
	if sc.Budget > 0 {
		ex.Deadline = time.Now().Add(sc.Budget)
	}
	reported := map[string]bool{}
	nontrivial := 0
	ex.Explore(sc.Body, func(x *vs.Exec) {
		// data races: two conflicting accesses of one execution that no synchronisation orders
		for _, rc := range x.RaceList() {
			sig := "race|" + raceSig(rc)
			if reported[sig] {
				continue
			}
			reported[sig] = true
			st["race_reports"]++
			// deterministic like everything else: the same schedule must show the same race again
			r1 := vs.Run(nil, x.Choices, sc.Body, vs.Options{CapMap: sc.CapMap, Race: true})
			if !r1.Races[rc] {
				emit(vf.Violation{Sig: "race|harness-error:replay-not-deterministic", Detail: fmt.Sprintf("%s: %s not reproduced by schedule %v", sc.Name, rc, x.Choices), Replay: map[string]any{"scenario": sc.Name, "choices": x.Choices}})
				continue
			}
			emit(vf.Violation{Sig: sig, Detail: fmt.Sprintf("%s: data race (%s): the two accesses are not ordered by any channel, mutex, wait-group, goroutine-creation or store synchronisation in this execution (schedule of %d choices, replayed with the same result; execution #%d of the search)", sc.Name, rc, len(x.Choices), ex.Execs+1),
				Replay: map[string]any{"scenario": sc.Name, "choices": x.Choices, "race": rc}})
		}
		got := append([]string{}, x.Out...)
		if !sc.Ordered {
			sort.Strings(got)
		}
		gotS := strings.Join(got, ",")
		problem := ""
		switch {
		case x.Status == "steplimit":
			st["steplimit_executions"]++
			return
		case x.Status == "unsupported" || x.Status == "lost-control" || x.Status == "replay-divergence":
			problem = "harness-error:" + x.Status
		case x.Status != "done":
			problem = x.Status
		case x.Leaked:
			problem = "goroutines-left-behind"
		case sc.Accept != nil:
			if msg := sc.Accept(x.Out); msg != "" {
				problem = "not-linearizable"
				x.Detail = msg
			}
		case gotS != wantS:
			problem = "wrong-output"
		}
		if x.Fresh {
			for _, p := range x.Points {
				if len(p.Enabled) > 1 {
					nontrivial++
					break
				}
			}
		}
		if problem == "" {
			return
		}
		detail := x.Detail
		if problem == "wrong-output" {
			detail = fmt.Sprintf("expected [%s], got [%s]", wantS, gotS)
		}
		sig := sc.Class + "|" + problem
		if x.Status == "crash" {
			sig = sc.Class + "|crash|" + normNumbers(x.Detail)
		}
		if reported[sig] {
			return
		}
		reported[sig] = true
		// before believing it: replay the recorded schedule twice, the observations must be identical
		r1 := vs.Run(nil, x.Choices, sc.Body, vs.Options{CapMap: sc.CapMap, KeepTrace: true, Race: sc.Race})
		r2 := vs.Run(nil, x.Choices, sc.Body, vs.Options{CapMap: sc.CapMap, Race: sc.Race})
		if r1.Status != x.Status || r2.Status != x.Status || strings.Join(r1.Out, ",") != strings.Join(x.Out, ",") || strings.Join(r2.Out, ",") != strings.Join(x.Out, ",") {
			emit(vf.Violation{Sig: sc.Class + "|harness-error:replay-not-deterministic", Detail: fmt.Sprintf("%s: schedule %v gave %s/%v, then %s/%v and %s/%v", sc.Name, x.Choices, x.Status, x.Out, r1.Status, r1.Out, r2.Status, r2.Out), Replay: map[string]any{"scenario": sc.Name, "choices": x.Choices}})
			return
		}
		tr := r1.Trace
		if len(tr) > 400 {
			tr = tr[len(tr)-400:]
		}
		emit(vf.Violation{Sig: sig, Detail: fmt.Sprintf("%s: %s: %s (schedule of %d choices, replayed twice with the same result; execution #%d of the search)", sc.Name, problem, detail, len(x.Choices), ex.Execs+1),
			Replay: map[string]any{"scenario": sc.Name, "choices": x.Choices, "status": x.Status, "observed": x.Out, "expected": want, "trace_tail": tr}})
	})
	st["executions"] += ex.Execs
	st["distinct_schedules"] += ex.FreshExecs
	st["states"] += ex.States()
	st["steps"] += ex.Steps
	st["nontrivial_executions"] += nontrivial
	st["distinct_outcomes"] += len(ex.Outcomes)
	if sc.Bound > 0 {
		st[fmt.Sprintf("bounded_scenarios_completed_bound_%d", ex.BoundDone)]++
	}
	if ex.Capped {
		st["scenarios_capped"]++
	} else {
		st["scenarios_exhausted"]++
	}
	if ex.MaxDepth > st["max_depth"] {
		st["max_depth"] = ex.MaxDepth
	}
	bd := ""
	if sc.Bound > 0 {
		bd = fmt.Sprintf(", preemption bound completed=%d of %d (iterative: lower bounds are re-explored)", ex.BoundDone, sc.Bound)
	}
	sample(fmt.Sprintf("%s: %d executions, %d states, max depth %d, %d outcome(s), capped=%v%s", sc.Name, ex.Execs, ex.States(), ex.MaxDepth, len(ex.Outcomes), ex.Capped, bd))
}

// raceSig drops the line numbers of a race report (file:function:line): the signature names the two
// functions, so it survives unrelated edits of the files.
func raceSig(rc string) string {
	f := strings.Fields(rc)
	for i, w := range f {
		if j := strings.LastIndex(w, ":"); j > 0 && strings.Count(w, ":") == 2 {
			f[i] = w[:j]
		}
	}
	return strings.Join(f, " ")
}

func normNumbers(s string) string {
	var b strings.Builder
	inNum := false
	for _, c := range s {
		if c >= '0' && c <= '9' {
			if !inNum {
				b.WriteByte('N')
			}
			inNum = true
			continue
		}
		inNum = false
		b.WriteRune(c)
	}
	return b.String()
}

func runSched(prop, tier string, args []string, w *schedWorker, rule string, assume []string) int {
	return runSchedWith(prop, tier, args, w, rule, assume, nil)
}

func runSchedWith(prop, tier string, args []string, w *schedWorker, rule string, assume []string, extra func(run *vf.Run) (int, []string)) int {
	if sweep.IsWorker(args) {
		return sweep.RunWorker(w, args)
	}
	if len(args) >= 2 && args[0] == "--trace" {
		// debugging aid: hs <ID> <tier> --trace <scenario index> [choices...] prints the default (or given) schedule's trace
		var idx int
		fmt.Sscan(args[1], &idx)
		var choices []int
		for _, a := range args[2:] {
			var c int
			fmt.Sscan(a, &c)
			choices = append(choices, c)
		}
		sc := w.scenarios[idx]
		r := vs.Run(nil, choices, sc.Body, vs.Options{CapMap: sc.CapMap, KeepTrace: true})
		tr := r.Trace
		if len(tr) > 300 {
			tr = append(append([]string{}, tr[:150]...), append([]string{"..."}, tr[len(tr)-150:]...)...)
		}
		fmt.Fprintf(vf.Out, "%s\nstatus=%s detail=%s out=%v steps=%d\n%s\n", sc.Name, r.Status, r.Detail, r.Out, len(r.Trace), strings.Join(tr, "\n"))
		return 0
	}
	if len(args) >= 2 && args[0] == "--probe" {
		// debugging aid: every single deviation from the default schedule, no cache
		var idx int
		fmt.Sscan(args[1], &idx)
		sc := w.scenarios[idx]
		base := vs.Run(nil, nil, sc.Body, vs.Options{CapMap: sc.CapMap})
		outs := map[string]int{}
		for i := range base.Points {
			for alt := 1; alt < len(base.Points[i].Enabled); alt++ {
				ch := append(append([]int{}, base.Choices[:i]...), alt)
				r := vs.Run(nil, ch, sc.Body, vs.Options{CapMap: sc.CapMap})
				k := r.Status + " " + strings.Join(r.Out, ",")
				if outs[k] == 0 {
					fmt.Fprintf(vf.Out, "point %d alt %d/%d: %s\n", i, alt, len(base.Points[i].Enabled), k)
				}
				outs[k]++
			}
		}
		fmt.Fprintf(vf.Out, "%d points, outcomes: %v\n", len(base.Points), outs)
		return 0
	}
	run := vf.NewRun(prop, tier, "model_checking")
	extraN := 0
	var extraSamples []string
	prev := map[string]any{}
	var prevAssume []string
	if extra != nil {
		extraN, extraSamples = extra(run)
		// an unscheduled part that fills in its own coverage (C11) is merged below
		for k, v := range run.Coverage {
			prev[k] = v
		}
		prevAssume = run.Assume
	}
	budget := 15 * time.Minute
	if tier == "thorough" {
		budget = 60 * time.Minute
	}
	res := sweep.Run(run, prop, tier, w, time.Now().Add(budget), 0, func(idx int, stderr string, hang bool) {
		run.Report(vf.Violation{Sig: w.scenarios[idx].Class + "|worker-died|" + sweep.PanicSite(stderr), Detail: fmt.Sprintf("worker died while exploring %s: %s", w.scenarios[idx].Name, sweep.PanicSite(stderr)), Replay: w.scenarios[idx].Name})
	})
	run.Coverage["states"] = res.Stats["states"]
	run.Coverage["transitions"] = res.Stats["steps"]
	run.Coverage["traces_validated_against_impl"] = res.Stats["executions"]
	run.Coverage["executions"] = res.Stats["executions"]
	run.Coverage["distinct_schedules"] = res.Stats["distinct_schedules"] // executions minus the re-runs of lower preemption bounds
	run.Coverage["scenarios"] = len(w.scenarios)
	run.Coverage["scenarios_explored_exhaustively"] = res.Stats["scenarios_exhausted"]
	run.Coverage["scenarios_capped"] = res.Stats["scenarios_capped"]
	run.Coverage["executions_with_a_real_choice"] = res.Stats["nontrivial_executions"]
	run.Coverage["distinct_outcomes_summed"] = res.Stats["distinct_outcomes"]
	run.Coverage["steplimit_executions"] = res.Stats["steplimit_executions"]
	run.Coverage["max_schedule_depth"] = res.Stats["max_depth"]
	for k, v := range res.Stats {
		if strings.HasPrefix(k, "bounded_scenarios_completed_bound_") {
			run.Coverage[k] = v
		}
	}
	run.Coverage["evaluations"] = res.Stats["executions"]
	run.Coverage["distinct_nontrivial"] = res.Stats["nontrivial_executions"]
	run.Coverage["exhaustive"] = res.Stats["scenarios_capped"] == 0 && !res.DeadlineHit && res.Done >= w.N()
	run.Coverage["rule"] = rule
	s := append(res.Samples, extraSamples...)
	if len(s) == 0 {
		s = []string{w.scenarios[0].Name}
	}
	run.Coverage["samples"] = s
	run.Coverage["unscheduled_extra_cases"] = extraN
	for _, k := range []string{"states", "transitions", "traces_validated_against_impl", "evaluations", "distinct_nontrivial"} {
		if p, ok := prev[k].(int); ok {
			if c, ok := run.Coverage[k].(int); ok {
				run.Coverage[k] = c + p
			}
		}
	}
	if p, ok := prev["exhaustive"].(bool); ok {
		run.Coverage["exhaustive"] = p && run.Coverage["exhaustive"].(bool)
	}
	if p, ok := prev["rule"].(string); ok {
		run.Coverage["rule"] = p + " || " + rule
	}
	if p, ok := prev["samples"].([]string); ok {
		run.Coverage["samples"] = append(p, s...)
	}
	run.Assume = append(append([]string{}, prevAssume...), []string{
		"scheduling points are the channel, mutex, wait-group, sleep, cancel and spawn operations of the instrumented files (tools/instr rewrites the current /repo sources; the site manifest is in .work/instr/out.json); code between two points runs atomically",
		"the state cache identifies a state by every goroutine's causal hash and pending operation; shared memory the instrumenter does not hook is invisible to it (can lose behaviours, never invent one)",
		"every reported schedule was replayed twice with identical observations before being believed",
	}...)
	run.Assume = append(run.Assume, assume...)
	return run.Finish()
}
