package checks

// C16: accepted identifiers and values are stored verbatim or rejected.
//
// Exhaustive finite product: every position (graph name, vertex gid, vertex
// label, edge gid, edge label, from, to, property name, property value) x every
// atom of a hostile string / JSON value set, written through the real
// GripServer handlers and directly through the GraphInterface on kvgraph over
// memkv; and every ordered pair of atoms at the identifier positions, optionally
// followed by a delete of one of them. Oracle: the call either fails and the
// whole observation battery is unchanged, or the battery equals the model in
// which exactly that element was written (every other element of every graph
// unchanged).

import (
	"context"
	"fmt"
	"regexp"
	"sort"
	"strings"
	"time"

	"github.com/bmeg/grip/gdbi"
	"github.com/bmeg/grip/gripql"
	"github.com/bmeg/grip/kvgraph"
	"google.golang.org/protobuf/types/known/structpb"

	"verif/harness/gmodel"
	"verif/harness/memkv"
	"verif/harness/qrun"
	"verif/harness/vf"
)

func c16Atoms() []string {
	long := strings.Repeat("x", 300)
	return []string{"a", "A", "a\x00b", "\x00", "a|b", "e", "v", "g", "data", "label", "gid", "_gid", " ", "", "é", "\xff", "a b", "_x", "-x", "x.y", "$x", "a/b", "g1__schema__", long, "0", "1e3", "a:b", "a\x00", "D", "f"}
}

func c16Values() []any {
	return []any{
		"text", "", 0.0, -1.5, 1.7e308, -1.7e308, 9007199254740993.0, true, false, nil,
		map[string]any{}, []any{}, map[string]any{"k": map[string]any{"j": []any{1.0, "a", nil}}}, []any{[]any{}, map[string]any{}},
		"a\x00b", "é", strings.Repeat("y", 300),
	}
}

type c16Write struct {
	Pos    string
	Atom   string // printable name
	Graph  string
	Elem   gmodel.Elem
	MkGrph bool // the write is AddGraph(Graph) followed by adding Elem
}

func atomName(a string) string {
	if len(a) > 40 {
		return fmt.Sprintf("%q...(%d bytes)", a[:8], len(a))
	}
	return fmt.Sprintf("%q", a)
}

func c16WriteFor(pos, atom string) c16Write {
	w := c16Write{Pos: pos, Atom: atomName(atom), Graph: "g1"}
	switch pos {
	case "graph-name":
		w.Graph = atom
		w.MkGrph = true
		w.Elem = gmodel.Elem{ID: "a", Label: "P"}
	case "vertex-gid":
		w.Elem = gmodel.Elem{ID: atom, Label: "P", Data: map[string]any{"n": 1.0}}
	case "vertex-label":
		w.Elem = gmodel.Elem{ID: "c", Label: atom}
	case "edge-gid":
		w.Elem = gmodel.Elem{Edge: true, ID: atom, From: "a", To: "b", Label: "x"}
	case "edge-label":
		w.Elem = gmodel.Elem{Edge: true, ID: "f", From: "a", To: "b", Label: atom}
	case "edge-from":
		w.Elem = gmodel.Elem{Edge: true, ID: "f", From: atom, To: "b", Label: "x"}
	case "edge-to":
		w.Elem = gmodel.Elem{Edge: true, ID: "f", From: "a", To: atom, Label: "x"}
	case "property-name":
		w.Elem = gmodel.Elem{ID: "c", Label: "P", Data: map[string]any{atom: 1.0}}
	}
	return w
}

type c16Env struct {
	rejected map[string]bool
	db       gdbi.GraphDB
	kv       *memkv.KV
	w        gmodel.World
	via      string
}

func c16Baseline(via string) *c16Env {
	kv := memkv.New()
	db := kvgraph.NewKVGraph(kv)
	w := gmodel.World{}
	base := []gmodel.Op{
		{Kind: "AddGraph", G: "g1"}, {Kind: "AddGraph", G: "g2"},
		{Kind: "AddVertex", G: "g1", Elems: []gmodel.Elem{{ID: "a", Label: "P"}, {ID: "b", Label: "Q", Data: map[string]any{"n": 1.0}}}},
		{Kind: "AddEdge", G: "g1", Elems: []gmodel.Elem{{Edge: true, ID: "e", From: "a", To: "b", Label: "x"}}},
		{Kind: "AddVertex", G: "g2", Elems: []gmodel.Elem{{ID: "a", Label: "Q"}}},
	}
	for _, o := range base {
		gmodel.ApplyDB(db, o)
		w = w.Apply(o).Worlds[0]
	}
	return &c16Env{db: db, kv: kv, w: w, via: via, rejected: map[string]bool{}}
}

// write performs one write; returns error-ness and panic text.
func (e *c16Env) write(w c16Write) (err error, pan string) {
	defer func() {
		if r := recover(); r != nil {
			pan = fmt.Sprint(r)
		}
	}()
	if e.via == "server" {
		srv := newServer(e.db)
		ctx := context.Background()
		if w.MkGrph {
			if _, err := srv.AddGraph(ctx, &gripql.GraphID{Graph: w.Graph}); err != nil {
				return err, ""
			}
			e.w = e.w.Apply(gmodel.Op{Kind: "AddGraph", G: w.Graph}).Worlds[0]
			if _, ok := e.w[w.Graph]; !ok { // the model refuses the name but the server took it
				e.w = e.w.Clone()
				e.w[w.Graph] = &gmodel.Graph{V: map[string]gmodel.Elem{}, E: map[string]gmodel.Elem{}}
			}
		}
		data, serr := structpb.NewStruct(w.Elem.Data)
		if serr != nil {
			return serr, ""
		}
		if w.Elem.Edge {
			_, err = srv.AddEdge(ctx, &gripql.GraphElement{Graph: w.Graph, Edge: &gripql.Edge{Gid: w.Elem.ID, Label: w.Elem.Label, From: w.Elem.From, To: w.Elem.To, Data: data}})
		} else {
			_, err = srv.AddVertex(ctx, &gripql.GraphElement{Graph: w.Graph, Vertex: &gripql.Vertex{Gid: w.Elem.ID, Label: w.Elem.Label, Data: data}})
		}
		return err, ""
	}
	if w.MkGrph {
		if err := e.db.AddGraph(w.Graph); err != nil {
			return err, ""
		}
		e.w = e.w.Clone()
		if _, ok := e.w[w.Graph]; !ok {
			e.w[w.Graph] = &gmodel.Graph{V: map[string]gmodel.Elem{}, E: map[string]gmodel.Elem{}}
		}
	}
	gi, err := e.db.Graph(w.Graph)
	if err != nil {
		return err, ""
	}
	if w.Elem.Edge {
		return gi.AddEdge([]*gdbi.Edge{w.Elem.ToGdbi()}), ""
	}
	return gi.AddVertex([]*gdbi.Vertex{w.Elem.ToGdbi()}), ""
}

func (e *c16Env) universe(ws ...c16Write) gmodel.Universe {
	u := gmodel.Universe{Graphs: []string{"g1", "g2"}, VIDs: []string{"a", "b", "c", "zz"}, EIDs: []string{"e", "f", "zz"}, VLabels: []string{"P", "Q"}, Filters: [][]string{nil, {"x"}}}
	add := func(l []string, s string) []string {
		for _, x := range l {
			if x == s {
				return l
			}
		}
		return append(l, s)
	}
	for _, w := range ws {
		if e.rejected[w.Atom+"|"+w.Pos] {
			continue // a refused string cannot be in the store; it is not used as a probe id either
		}
		u.Graphs = add(u.Graphs, w.Graph)
		if w.Elem.Edge {
			u.EIDs = add(u.EIDs, w.Elem.ID)
			u.VIDs = add(add(u.VIDs, w.Elem.From), w.Elem.To)
			u.Filters = append(u.Filters, []string{w.Elem.Label})
		} else {
			u.VIDs = add(u.VIDs, w.Elem.ID)
			u.VLabels = add(u.VLabels, w.Elem.Label)
		}
	}
	return u
}

// apply writes w, updates the model according to acceptance, and compares.
func (e *c16Env) check(run *vf.Run, ws []c16Write, w c16Write, label string) bool {
	err, pan := e.write(w)
	rep := map[string]any{"via": e.via, "position": w.Pos, "atom": w.Atom, "element": w.Elem.String(), "graph": w.Graph, "case": label}
	if pan != "" {
		run.Report(vf.Violation{Sig: fmt.Sprintf("%s|%s|%s|panic", w.Pos, e.via, w.Atom), Detail: fmt.Sprintf("%s: writing %s into graph %q panicked: %s", label, w.Elem, w.Graph, pan), Replay: rep})
		return false
	}
	if err != nil {
		e.rejected[w.Atom+"|"+w.Pos] = true
	}
	if err == nil {
		if g, ok := e.w[w.Graph]; ok {
			e.w = e.w.Clone()
			g = e.w[w.Graph]
			g.Put(w.Elem)
		}
	}
	u := e.universe(ws...)
	obs, opan := gmodel.ObserveDB(e.db, u)
	if opan != "" {
		run.Report(vf.Violation{Sig: fmt.Sprintf("%s|%s|%s|read-panic", w.Pos, e.via, w.Atom), Detail: fmt.Sprintf("%s: after writing %s into %q (err=%v) reading panicked: %s", label, w.Elem, w.Graph, err, opan), Replay: rep})
		return false
	}
	ok := true
	seen := map[string]bool{}
	for _, m := range gmodel.Diff(e.w.Observe(u), obs) {
		if seen[m.Comp+"|"+listDirection(m.Want, m.Got)] {
			continue
		}
		seen[m.Comp+"|"+listDirection(m.Want, m.Got)] = true
		ok = false
		acc := "accepted"
		if err != nil {
			acc = "rejected"
		}
		run.Report(vf.Violation{Sig: fmt.Sprintf("%s|%s|%s|%s|%s|%s", w.Pos, e.via, w.Atom, acc, m.Comp, listDirection(m.Want, m.Got)),
			Detail: fmt.Sprintf("%s: write of %s into graph %q was %s (err=%v); %s %s: expected %s, read back %s", label, w.Elem, w.Graph, acc, err, m.Comp, m.Item, m.Want, m.Got), Replay: rep})
	}
	// "through lookup, listing and traversal": a property whose name is a plain word is also read back by
	// name through the traversal engine (names with path or template characters mean something else there)
	if w.Pos == "property-name" && err == nil && c16PlainName.MatchString(c16FirstKey(w.Elem)) {
		name := c16FirstKey(w.Elem)
		switch name {
		case "gid", "label", "from", "to":
			// the traversal engine reads the element's own fields under these names (documented)
		default:
			if gi, gerr := e.db.Graph(w.Graph); gerr == nil {
				var want []string
				for id, v := range e.w[w.Graph].V {
					if _, has := v.Data[name]; has {
						want = append(want, id)
					}
				}
				sort.Strings(want)
				for qn, q := range map[string]*gripql.Query{"hasKey": gripql.V().HasKey(name), "has-eq": gripql.V().Has(gripql.Eq(name, 1.0))} {
					res := qrun.Run(gi.Compiler(), q.Statements, 20*time.Second)
					var got []string
					for _, r := range res.Rows {
						if m := c16GidRe.FindStringSubmatch(r); m != nil {
							got = append(got, m[1])
						}
					}
					sort.Strings(got)
					if res.CompileErr != nil || res.TimedOut || strings.Join(got, ",") != strings.Join(want, ",") {
						ok = false
						run.Report(vf.Violation{Sig: fmt.Sprintf("%s|%s|%s|accepted|traversal-%s|different", w.Pos, e.via, w.Atom, qn),
							Detail: fmt.Sprintf("%s: vertices of %q carrying the property %q: %v; V().%s on it returns %v (err=%v timeout=%v)", label, w.Graph, name, want, qn, got, res.CompileErr, res.TimedOut), Replay: rep})
					}
				}
			}
		}
	}
	return ok
}

var c16PlainName = regexp.MustCompile(`^[A-Za-z][A-Za-z0-9]*$`)
var c16GidRe = regexp.MustCompile(`"gid":"([^"]*)"`)

func c16FirstKey(e gmodel.Elem) string {
	for k := range e.Data {
		return k
	}
	return ""
}

// C16 runs the check.
func C16(tier string) int {
	run := vf.NewRun("C16", tier, "exploration")
	thorough := tier == "thorough"
	atoms := c16Atoms()
	positions := []string{"graph-name", "vertex-gid", "vertex-label", "edge-gid", "edge-label", "edge-from", "edge-to", "property-name"}
	evals := 0
	distinct := map[string]bool{}
	var samples []string
	for _, via := range []string{"direct", "server"} {
		// singles
		for _, pos := range positions {
			for _, a := range atoms {
				if via == "server" && pos == "edge-gid" && a == "" {
					continue // the server assigns a generated id to an edge without one (documented)
				}
				env := c16Baseline(via)
				w := c16WriteFor(pos, a)
				env.check(run, []c16Write{w}, w, "single")
				evals++
				distinct[pos+"|"+via+"|"+w.Atom] = true
			}
		}
		for i, v := range c16Values() {
			env := c16Baseline(via)
			w := c16Write{Pos: "property-value", Atom: fmt.Sprintf("value#%d:%.30s", i, vf.J(v)), Graph: "g1", Elem: gmodel.Elem{ID: "c", Label: "P", Data: map[string]any{"k": v}}}
			env.check(run, []c16Write{w}, w, "single")
			evals++
			distinct["property-value|"+via+"|"+w.Atom] = true
		}
		// one identifier used for two different elements - an edge and a vertex of one graph, a vertex in each of
		// two graphs - written in that order, then the FIRST is deleted: the second must stay exactly as
		// written in everything observable (label listings and label scans included: a missing entry is charged)
		for _, a := range atoms {
			for _, kind := range []string{"edge-then-vertex", "two-graphs"} {
				env := c16Baseline(via)
				var w1, w2 c16Write
				var op gmodel.Op
				if kind == "edge-then-vertex" {
					w1, w2 = c16WriteFor("edge-gid", a), c16WriteFor("vertex-gid", a)
					op = gmodel.Op{Kind: "DelEdge", G: "g1", ID: a}
				} else {
					w1, w2 = c16WriteFor("vertex-gid", a), c16WriteFor("vertex-gid", a)
					w2.Graph = "g2"
					if a == "a" {
						// the baseline of g2 already holds a vertex a with label Q: writing it with another label would be a
						// relabel, whose stale label entry is C03's listed finding and not what this case is about
						w2.Elem.Label = "Q"
					}
					op = gmodel.Op{Kind: "DelVertex", G: "g1", ID: a}
				}
				if via == "server" && a == "" {
					continue
				}
				ws := []c16Write{w1, w2}
				if !env.check(run, ws[:1], w1, "shared-id/first") || !env.check(run, ws, w2, "shared-id/second") {
					continue
				}
				before := env.w
				_, pan := gmodel.ApplyDB(env.db, op)
				env.w = before.Apply(op).Worlds[0]
				u := env.universe(ws...)
				obs, opan := gmodel.ObserveDB(env.db, u)
				evals += 3
				if pan != "" || opan != "" {
					run.Report(vf.Violation{Sig: fmt.Sprintf("shared-id|%s|%s|panic", kind, via), Detail: fmt.Sprintf("atom %s, %s then %s: panic %s%s", atomName(a), kind, op, pan, opan), Replay: nil})
					continue
				}
				seen := map[string]bool{}
				for _, m := range gmodel.Diff(env.w.Observe(u), obs) {
					dir := listDirection(m.Want, m.Got)
					if (m.Comp == "label-scan" || m.Comp == "vlabels" || m.Comp == "elabels") && dir == "extra" {
						continue // C03's listed finding (the label index never shrinks); a missing entry is charged
					}
					if seen[m.Comp+dir] {
						continue
					}
					seen[m.Comp+dir] = true
					run.Report(vf.Violation{Sig: fmt.Sprintf("shared-id|%s|%s|%s|%s", kind, via, m.Comp, dir),
						Detail: fmt.Sprintf("identifier %s used for %s, written in that order, then %s: %s %s expected %s, read back %s", atomName(a), kind, op, m.Comp, m.Item, m.Want, m.Got),
						Replay: map[string]any{"via": via, "kind": kind, "atom": a, "delete": op.String()}})
				}
			}
		}
		// ordered pairs at the identifier positions, then optionally delete the first
		pairPos := []string{"graph-name", "vertex-gid", "vertex-label", "edge-gid", "edge-label"}
		if thorough {
			pairPos = positions
		}
		for _, pos := range pairPos {
			for _, a := range atoms {
				for _, b := range atoms {
					if a == b || (via == "server" && pos == "edge-gid" && (a == "" || b == "")) {
						continue
					}
					for _, del := range []bool{false, true} {
						env := c16Baseline(via)
						w1, w2 := c16WriteFor(pos, a), c16WriteFor(pos, b)
						// the two writes must not be the same element unless the position is the id itself
						switch pos {
						case "vertex-label", "property-name":
							w2.Elem.ID = "d"
						case "edge-label", "edge-from", "edge-to":
							w2.Elem.ID = "h"
						}
						ws := []c16Write{w1, w2}
						if !env.check(run, ws[:1], w1, "pair/first") {
							continue
						}
						if !env.check(run, ws, w2, "pair/second") {
							continue
						}
						evals += 2
						if del && (pos == "vertex-gid" || pos == "edge-gid" || pos == "graph-name") {
							op := gmodel.Op{Kind: "DelVertex", G: "g1", ID: a}
							if pos == "edge-gid" {
								op.Kind = "DelEdge"
							}
							if pos == "graph-name" {
								op = gmodel.Op{Kind: "DeleteGraph", G: a}
							}
							before := env.w
							_, pan := gmodel.ApplyDB(env.db, op)
							out := before.Apply(op)
							env.w = out.Worlds[0]
							if _, ok := before[op.G]; !ok && pos != "graph-name" {
								env.w = before
							}
							u := env.universe(ws...)
							obs, opan := gmodel.ObserveDB(env.db, u)
							evals++
							if pan != "" || opan != "" {
								run.Report(vf.Violation{Sig: fmt.Sprintf("%s|%s|pair-delete|panic", pos, via), Detail: fmt.Sprintf("atoms %s,%s then %s: panic %s%s", atomName(a), atomName(b), op, pan, opan), Replay: nil})
								continue
							}
							seen := map[string]bool{}
							for _, m := range gmodel.Diff(env.w.Observe(u), obs) {
								if seen[m.Comp+"|"+listDirection(m.Want, m.Got)] {
									continue
								}
								if (m.Comp == "label-scan" || m.Comp == "vlabels" || m.Comp == "elabels") && listDirection(m.Want, m.Got) == "extra" {
									continue // the label index never shrinks (stale EXTRA entries): C03's known finding, not charged here; a MISSING entry is
								}
								seen[m.Comp+"|"+listDirection(m.Want, m.Got)] = true
								run.Report(vf.Violation{Sig: fmt.Sprintf("%s|%s|delete-of-%s-with-%s-present|%s|%s", pos, via, atomName(a), atomName(b), m.Comp, listDirection(m.Want, m.Got)),
									Detail: fmt.Sprintf("wrote %s and %s at %s, then %s: %s %s expected %s, read back %s", atomName(a), atomName(b), pos, op, m.Comp, m.Item, m.Want, m.Got),
									Replay: map[string]any{"via": via, "position": pos, "atoms": []string{a, b}, "delete": op.String()}})
							}
						}
						if len(samples) < 5 && evals%1777 == 0 {
							samples = append(samples, fmt.Sprintf("%s via %s: write %s then %s (delete first: %v)", pos, via, atomName(a), atomName(b), del))
						}
					}
				}
			}
		}
	}
	run.Coverage["evaluations"] = evals
	run.Coverage["distinct_nontrivial"] = len(distinct)
	run.Coverage["atoms"] = len(atoms)
	run.Coverage["json_values"] = len(c16Values())
	run.Coverage["positions"] = len(positions) + 1
	run.Coverage["rule"] = "every position x atom through {GraphInterface, GripServer handlers}; every ordered pair of distinct atoms at the identifier positions (all positions in the thorough tier), with and without deleting the first; distinct = position x path x atom"
	if len(samples) == 0 {
		samples = []string{"vertex-gid via server: write \"a\\x00b\" then \"a\""}
	}
	run.Coverage["samples"] = samples
	run.Coverage["exhaustive"] = true
	run.Assume = []string{
		"whether a string is accepted is the implementation's choice; the oracle only demands: rejected => nothing changes, accepted => reads back identical everywhere and nothing else changes",
		"observation battery of gmodel (lookup, listings, adjacency, label scans/lists, graph list) over all ids/labels involved; store is kvgraph on memkv",
		"stale label-index entries after a delete are C03's known finding and are not charged again in the pair/delete cases",
	}
	return run.Finish()
}
