package checks

// C10: all embedded key-value drivers behave as the same ordered map.
//
// Explicit-state search: the reachable state space of the store over 4 keys x
// {absent,"","x"} is 81 states. For every driver and every state S (reached by
// replaying the BFS-shortest path on a FRESH store), every mutator of the
// alphabet is applied and the full observation battery is compared with the
// sorted-map model (memkv). The store is then moved back to S with plain
// Set/Delete and re-verified; if that fails a fresh store is opened.

import (
	"bytes"
	"fmt"
	"os"
	"path/filepath"
	"sort"
	"strings"
	"sync"
	"time"

	"github.com/bmeg/grip/kvi"
	_ "github.com/bmeg/grip/kvi/badgerdb"
	_ "github.com/bmeg/grip/kvi/boltdb"
	_ "github.com/bmeg/grip/kvi/leveldb"
	_ "github.com/bmeg/grip/kvi/pebbledb"

	"verif/harness/memkv"
	"verif/harness/vf"
)

var c10Keys = []string{"a", "ab", "b", "ba"}
var c10Vals = []string{"", "x"}
var c10Probe = []string{"", "a", "aa", "ab", "b", "ba", "c"}

// kvOp is one primitive write inside a transaction.
type kvOp struct {
	Del bool
	K   string
	V   string
}

func (o kvOp) String() string {
	if o.Del {
		return fmt.Sprintf("del(%q)", o.K)
	}
	return fmt.Sprintf("set(%q,%q)", o.K, o.V)
}
func (o kvOp) kind() string {
	if o.Del {
		return "del"
	}
	return "set"
}

// kvMut is one top-level mutator.
type kvMut struct {
	Kind string // Set Delete DeletePrefix Update BulkWrite
	K, V string
	Ops  []kvOp
	Fail bool // callback returns an error
}

func (m kvMut) String() string {
	switch m.Kind {
	case "Set":
		return fmt.Sprintf("Set(%q,%q)", m.K, m.V)
	case "Delete":
		return fmt.Sprintf("Delete(%q)", m.K)
	case "DeletePrefix":
		return fmt.Sprintf("DeletePrefix(%q)", m.K)
	}
	s := []string{}
	for _, o := range m.Ops {
		s = append(s, o.String())
	}
	r := "nil"
	if m.Fail {
		r = "err"
	}
	return fmt.Sprintf("%s{%s;return %s}", m.Kind, strings.Join(s, ";"), r)
}

// shape abstracts keys and values away (used in signatures).
func (m kvMut) shape() string {
	switch m.Kind {
	case "Set", "Delete", "DeletePrefix":
		return m.Kind
	}
	if true {
		r := "nil"
		if m.Fail {
			r = "err"
		}
		return m.Kind + ";" + r
	}
	s := []string{}
	for _, o := range m.Ops {
		s = append(s, o.kind())
	}
	r := "nil"
	if m.Fail {
		r = "err"
	}
	return fmt.Sprintf("%s{%s;%s}", m.Kind, strings.Join(s, ","), r)
}

func pairKey(k string) bool { return k == "a" || k == "ab" }

func c10Mutators(thorough bool) []kvMut {
	var out []kvMut
	for _, k := range c10Keys {
		for _, v := range c10Vals {
			out = append(out, kvMut{Kind: "Set", K: k, V: v})
		}
	}
	for _, k := range c10Keys {
		out = append(out, kvMut{Kind: "Delete", K: k})
	}
	prefixes := []string{"a", "ab", "b", "z", ""} // the empty prefix deletes everything
	for _, p := range prefixes {
		out = append(out, kvMut{Kind: "DeletePrefix", K: p})
	}
	var prim []kvOp
	for _, k := range c10Keys {
		for _, v := range c10Vals {
			prim = append(prim, kvOp{K: k, V: v})
		}
	}
	var primTx []kvOp
	primTx = append(primTx, prim...)
	for _, k := range c10Keys {
		primTx = append(primTx, kvOp{Del: true, K: k})
	}
	for _, fail := range []bool{false, true} {
		for _, a := range primTx {
			out = append(out, kvMut{Kind: "Update", Ops: []kvOp{a}, Fail: fail})
		}
		for _, a := range primTx {
			for _, b := range primTx {
				if !thorough && !(pairKey(a.K) && pairKey(b.K)) {
					continue // quick: two-op transactions only over the prefix-related keys a, ab
				}
				out = append(out, kvMut{Kind: "Update", Ops: []kvOp{a, b}, Fail: fail})
			}
		}
		for _, a := range prim {
			out = append(out, kvMut{Kind: "BulkWrite", Ops: []kvOp{a}, Fail: fail})
		}
		for _, a := range prim {
			for _, b := range prim {
				if !thorough && !(pairKey(a.K) && pairKey(b.K)) {
					continue
				}
				out = append(out, kvMut{Kind: "BulkWrite", Ops: []kvOp{a, b}, Fail: fail})
			}
		}
	}
	return out
}

// obs is a flat list of labelled observations.
type obs struct {
	labels []string
	vals   []string
}

func (o *obs) add(label, val string) {
	o.labels = append(o.labels, label)
	o.vals = append(o.vals, val)
}

func itState(it kvi.KVIterator) string {
	if !it.Valid() {
		return "invalid"
	}
	v, err := it.Value()
	if err != nil {
		return fmt.Sprintf("valid key=%q value-error", it.Key())
	}
	return fmt.Sprintf("valid key=%q val=%q", it.Key(), v)
}

// cursorPrograms: sequences over Seek(k)|SeekReverse(k)|Next starting with a seek.
type curOp struct {
	Op string // S R N
	K  string
}

func (c curOp) String() string {
	switch c.Op {
	case "S":
		return fmt.Sprintf("Seek(%q)", c.K)
	case "R":
		return fmt.Sprintf("SeekReverse(%q)", c.K)
	}
	return "Next"
}

func curShape(p []curOp) string {
	s := []string{}
	for _, c := range p {
		switch c.Op {
		case "S":
			s = append(s, "Seek")
		case "R":
			s = append(s, "SeekReverse")
		default:
			s = append(s, "Next")
		}
	}
	return strings.Join(s, ",")
}

func curString(p []curOp) string {
	s := []string{}
	for _, c := range p {
		s = append(s, c.String())
	}
	return strings.Join(s, ";")
}

func cursorAlphabet() []curOp {
	var a []curOp
	for _, k := range c10Probe {
		a = append(a, curOp{"S", k})
	}
	for _, k := range c10Probe {
		if k == "" {
			continue // badger gives an empty reverse seek key the meaning "last key"; grip never seeks with an empty key
		}
		a = append(a, curOp{"R", k})
	}
	a = append(a, curOp{"N", ""})
	return a
}

// runCursor runs program p on a fresh iterator of `view` and returns the
// iterator state after every step. A Next on an iterator that the MODEL says
// is invalid is outside the contract (grip never does it) and ends the program;
// `modelStates` (nil for the model itself) supplies that information.
func runCursor(view func(func(kvi.KVIterator) error) error, p []curOp, modelStates []string) (states []string, panicked string) {
	defer func() {
		if r := recover(); r != nil {
			panicked = fmt.Sprint(r)
		}
	}()
	view(func(it kvi.KVIterator) error {
		for i, c := range p {
			switch c.Op {
			case "S":
				it.Seek([]byte(c.K))
			case "R":
				it.SeekReverse([]byte(c.K))
			case "N":
				prev := ""
				if modelStates != nil {
					prev = modelStates[i-1]
				} else {
					prev = states[i-1]
				}
				if prev == "invalid" {
					states = append(states, "n/a")
					return nil
				}
				it.Next()
			}
			states = append(states, itState(it))
		}
		return nil
	})
	return
}

type c10Store struct {
	name string
	dir  string
	n    int
	kv   kvi.KVInterface
	path string
}

func (s *c10Store) open() error {
	s.close()
	s.n++
	s.path = filepath.Join(s.dir, fmt.Sprintf("%s-%d", s.name, s.n))
	kv, err := kvi.NewKVInterface(s.name, s.path, nil)
	if err != nil {
		return err
	}
	s.kv = kv
	return nil
}

func (s *c10Store) close() {
	if s.kv != nil {
		func() {
			defer func() { recover() }()
			s.kv.Close()
		}()
		s.kv = nil
		os.RemoveAll(s.path)
	}
}

func applyMut(kv kvi.KVInterface, m kvMut, inTx func(tx kvi.KVTransaction)) (err error, panicked string) {
	defer func() {
		if r := recover(); r != nil {
			panicked = fmt.Sprint(r)
		}
	}()
	switch m.Kind {
	case "Set":
		err = kv.Set([]byte(m.K), []byte(m.V))
	case "Delete":
		err = kv.Delete([]byte(m.K))
	case "DeletePrefix":
		err = kv.DeletePrefix([]byte(m.K))
	case "Update":
		err = kv.Update(func(tx kvi.KVTransaction) error {
			for _, o := range m.Ops {
				if o.Del {
					tx.Delete([]byte(o.K))
				} else {
					tx.Set([]byte(o.K), []byte(o.V))
				}
			}
			if inTx != nil {
				inTx(tx)
			}
			if m.Fail {
				return fmt.Errorf("callback failed")
			}
			return nil
		})
	case "BulkWrite":
		err = kv.BulkWrite(func(tx kvi.KVBulkWrite) error {
			for _, o := range m.Ops {
				tx.Set([]byte(o.K), []byte(o.V))
			}
			if m.Fail {
				return fmt.Errorf("callback failed")
			}
			return nil
		})
	}
	return
}

// point reads + full forward/reverse scans: identifies the abstract state.
func readState(kv kvi.KVInterface) (o obs, panicked string) {
	defer func() {
		if r := recover(); r != nil {
			panicked = fmt.Sprint(r)
		}
	}()
	for _, k := range append(append([]string{}, c10Keys...), "zz") {
		v, err := kv.Get([]byte(k))
		if err != nil {
			o.add("Get("+k+")", "error")
		} else {
			o.add("Get("+k+")", fmt.Sprintf("%q", v))
		}
		o.add("HasKey("+k+")", fmt.Sprint(kv.HasKey([]byte(k))))
	}
	kv.View(func(it kvi.KVIterator) error {
		n := 0
		var s []string
		// callers collect it.Key() during a scan and use the keys afterwards (kvgraph.DelVertex does): a key
		// that was handed out must still read the same once the scan has moved on
		var kept [][]byte
		for it.Seek([]byte("")); it.Valid() && n < 10; it.Next() {
			v, _ := it.Value()
			kept = append(kept, it.Key())
			s = append(s, fmt.Sprintf("%q=%q", it.Key(), v))
			n++
		}
		o.add("scan-forward", strings.Join(s, ","))
		s = nil
		for _, k := range kept {
			s = append(s, fmt.Sprintf("%q", k))
		}
		o.add("scan-forward-keys-read-again-after-the-scan", strings.Join(s, ","))
		s = nil
		kept = nil
		n = 0
		for it.SeekReverse([]byte("zzz")); it.Valid() && n < 10; it.Next() {
			v, _ := it.Value()
			kept = append(kept, it.Key())
			s = append(s, fmt.Sprintf("%q=%q", it.Key(), v))
			n++
		}
		o.add("scan-reverse", strings.Join(s, ","))
		s = nil
		for _, k := range kept {
			s = append(s, fmt.Sprintf("%q", k))
		}
		o.add("scan-reverse-keys-read-again-after-the-scan", strings.Join(s, ","))
		for _, k := range append(append([]string{}, c10Keys...), "zz") {
			v, err := it.Get([]byte(k))
			if err != nil {
				o.add("it.Get("+k+")", "error")
			} else {
				o.add("it.Get("+k+")", fmt.Sprintf("%q", v))
			}
		}
		return nil
	})
	return
}

// reads inside a transaction after its own writes
func readTx(tx kvi.KVTransaction) (o obs, panicked string) {
	defer func() {
		if r := recover(); r != nil {
			panicked = fmt.Sprint(r)
		}
	}()
	for _, k := range append(append([]string{}, c10Keys...), "zz") {
		v, err := tx.Get([]byte(k))
		if err != nil {
			o.add("tx.Get("+k+")", "error")
		} else {
			o.add("tx.Get("+k+")", fmt.Sprintf("%q", v))
		}
		o.add("tx.HasKey("+k+")", fmt.Sprint(tx.HasKey([]byte(k))))
	}
	tx.View(func(it kvi.KVIterator) error {
		n := 0
		var s []string
		for it.Seek([]byte("")); it.Valid() && n < 10; it.Next() {
			v, _ := it.Value()
			s = append(s, fmt.Sprintf("%q=%q", it.Key(), v))
			n++
		}
		o.add("tx.scan-forward", strings.Join(s, ","))
		return nil
	})
	return
}

func labelKind(l string) string {
	if i := strings.Index(l, "("); i >= 0 {
		return l[:i]
	}
	return l
}

type c10State [4]int // 0 absent, 1 "", 2 "x"

func (s c10State) String() string {
	p := []string{}
	for i, k := range c10Keys {
		switch s[i] {
		case 1:
			p = append(p, k+"=\"\"")
		case 2:
			p = append(p, k+"=\"x\"")
		}
	}
	return "{" + strings.Join(p, ",") + "}"
}

func stateOf(m *memkv.KV) c10State {
	var s c10State
	for i, k := range c10Keys {
		v, err := m.Get([]byte(k))
		if err == nil {
			if len(v) == 0 {
				s[i] = 1
			} else {
				s[i] = 2
			}
		}
	}
	return s
}

func buildModel(s c10State) *memkv.KV {
	m := memkv.New()
	for i, k := range c10Keys {
		switch s[i] {
		case 1:
			m.Set([]byte(k), []byte(""))
		case 2:
			m.Set([]byte(k), []byte("x"))
		}
	}
	return m
}

// C10 runs the check.
func C10(tier string) int {
	run := vf.NewRun("C10", tier, "model_checking")
	thorough := tier == "thorough"
	muts := c10Mutators(thorough)

	// BFS over model states with single Set/Delete to get shortest paths
	type node struct {
		s    c10State
		path []kvMut
	}
	seen := map[c10State][]kvMut{}
	var order []c10State
	q := []node{{}}
	seen[c10State{}] = nil
	order = append(order, c10State{})
	modelTransitions := 0
	for len(q) > 0 {
		n := q[0]
		q = q[1:]
		for _, m := range muts {
			if m.Kind != "Set" && m.Kind != "Delete" {
				continue
			}
			mod := buildModel(n.s)
			applyMut(mod, m, nil)
			modelTransitions++
			ns := stateOf(mod)
			if _, ok := seen[ns]; !ok {
				p := append(append([]kvMut{}, n.path...), m)
				seen[ns] = p
				order = append(order, ns)
				q = append(q, node{ns, p})
			}
		}
	}

	// cursor programs
	alpha := cursorAlphabet()
	var programs [][]curOp
	maxLen := 3
	var gen func(p []curOp)
	gen = func(p []curOp) {
		if len(p) > 0 {
			programs = append(programs, append([]curOp{}, p...))
		}
		if len(p) == maxLen {
			return
		}
		for _, a := range alpha {
			if len(p) == 0 && a.Op == "N" {
				continue
			}
			gen(append(p, a))
		}
	}
	gen(nil)
	sort.SliceStable(programs, func(i, j int) bool { return len(programs[i]) < len(programs[j]) })

	work := filepath.Join(vf.Root(), ".work", fmt.Sprintf("c10-%d", os.Getpid()))
	os.MkdirAll(work, 0o755)
	defer os.RemoveAll(work)

	drivers := []string{"badger", "bolt", "level", "pebble"}
	// guard: a mutator that never returns would take the whole search (and, if it allocates while it
	// spins, the machine) with it, so the prefix deletes are first tried once per driver under a watchdog;
	// a call that is still running after 10 s is reported and the check stops there
	for _, drv := range drivers {
		st := &c10Store{name: drv, dir: filepath.Join(work, "probe")}
		os.MkdirAll(st.dir, 0o755)
		if err := st.open(); err != nil {
			fmt.Fprintf(os.Stderr, "C10: cannot open %s: %v\n", drv, err)
			return 2
		}
		st.kv.Set([]byte("a"), []byte("x"))
		st.kv.Set([]byte("ab"), []byte(""))
		for _, pfx := range []string{"", "a", "zz"} {
			done := make(chan struct{})
			go func() { defer close(done); defer func() { recover() }(); st.kv.DeletePrefix([]byte(pfx)) }()
			select {
			case <-done:
			case <-time.After(10 * time.Second):
				run.Report(vf.Violation{Sig: fmt.Sprintf("%s|DeletePrefix|never-returns", drv), Detail: fmt.Sprintf("%s: DeletePrefix(%q) on a store holding the keys a, ab is still running after 10 s", drv, pfx), Replay: map[string]any{"driver": drv, "state": "a=x,ab=", "mutator": fmt.Sprintf("DeletePrefix(%q)", pfx)}})
				run.Coverage["exhaustive"] = false
				run.Coverage["rule"] = "stopped at the watchdog probe: a prefix delete does not return"
				run.Coverage["samples"] = []string{fmt.Sprintf("%s DeletePrefix(%q)", drv, pfx)}
				return run.Finish()
			}
		}
		st.close()
	}
	// volume part: the drivers delete a prefix in blocks of a literal size (deleteBlockSize = 10000 in badger,
	// leveldb and pebble), so a prefix delete is also run over key counts around that constant and its
	// multiples; afterwards the store must hold exactly the one key outside the prefix, like the sorted map.
	// (pebble deletes with one synced write per key: its large sizes run in the thorough tier only)
	volume := 0
	for _, drv := range drivers {
		sizes := []int{9998, 9999, 10000, 10001, 20001}
		if drv == "pebble" && tier != "thorough" {
			sizes = []int{101}
		}
		for _, n := range sizes {
			st := &c10Store{name: drv, dir: filepath.Join(work, fmt.Sprintf("vol-%s-%d", drv, n))}
			os.MkdirAll(st.dir, 0o755)
			if err := st.open(); err != nil {
				fmt.Fprintf(os.Stderr, "C10: cannot open %s: %v\n", drv, err)
				return 2
			}
			st.kv.BulkWrite(func(bl kvi.KVBulkWrite) error {
				for i := 0; i < n; i++ {
					bl.Set([]byte(fmt.Sprintf("p%06d", i)), []byte("x"))
				}
				return bl.Set([]byte("q"), []byte("y"))
			})
			st.kv.DeletePrefix([]byte("p"))
			left, first := 0, ""
			st.kv.View(func(it kvi.KVIterator) error {
				for it.Seek([]byte("")); it.Valid(); it.Next() {
					if left == 0 {
						first = string(it.Key())
					}
					left++
				}
				return nil
			})
			volume++
			if left != 1 || first != "q" {
				run.Report(vf.Violation{Sig: fmt.Sprintf("%s|DeletePrefix|volume|keys-left-behind", drv),
					Detail: fmt.Sprintf("%s: %d keys p000000.. and the key q; after DeletePrefix(p) the store holds %d keys (first %q), the sorted map holds exactly q", drv, n, left, first),
					Replay: map[string]any{"driver": drv, "keys_under_prefix": n, "mutator": "DeletePrefix(p)"}})
			}
			st.close()
			os.RemoveAll(st.dir)
		}
	}
	run.Coverage["prefix_delete_volume_cases"] = volume
	gTransitions, gCursorRuns, gOpens := 0, 0, 0
	perDriver := map[string]int{}
	var samples []any
	distinctOutcomes := map[string]bool{}

	var mu sync.Mutex
	var wg sync.WaitGroup
	const shards = 4
	for _, drv := range drivers {
		for shard := 0; shard < shards; shard++ {
			drv, shard := drv, shard
			wg.Add(1)
			go func() {
				defer wg.Done()
				st := &c10Store{name: fmt.Sprintf("%s", drv), dir: filepath.Join(work, fmt.Sprintf("s%d", shard))}
				os.MkdirAll(st.dir, 0o755)
				transitions, cursorRuns, opens := 0, 0, 0
				defer func() {
					mu.Lock()
					gTransitions += transitions
					gCursorRuns += cursorRuns
					gOpens += opens
					perDriver[drv] += transitions
					mu.Unlock()
				}()
				for si, S := range order {
					if si%shards != shard {
						continue
					}
					if err := st.open(); err != nil {
						fmt.Fprintf(os.Stderr, "C10: cannot open %s: %v\n", drv, err)
						os.Exit(2)
					}
					opens++
					for _, m := range seen[S] {
						applyMut(st.kv, m, nil)
					}
					model := buildModel(S)
					// full cursor battery on this state (top-level View and, thorough, inside Update)
					diverged := map[string]bool{}
					for _, p := range programs {
						skip := false
						for l := 1; l < len(p); l++ {
							if diverged[curString(p[:l])] {
								skip = true
								break
							}
						}
						if skip {
							continue
						}
						want, _ := runCursor(model.View, p, nil)
						got, pan := runCursor(st.kv.View, p, want)
						cursorRuns++
						if pan != "" {
							diverged[curString(p)] = true
							run.Report(vf.Violation{Sig: fmt.Sprintf("%s|cursor|%s|panic", drv, curShape(p)),
								Detail: fmt.Sprintf("driver %s state %s cursor %s panicked: %s", drv, S, curString(p), pan),
								Replay: map[string]any{"driver": drv, "state": S.String(), "cursor": curString(p)}})
							st.open()
							opens++
							for _, m := range seen[S] {
								applyMut(st.kv, m, nil)
							}
							continue
						}
						if strings.Join(want, "|") != strings.Join(got, "|") {
							diverged[curString(p)] = true
							// first diverging step
							i := 0
							for i < len(want) && i < len(got) && want[i] == got[i] {
								i++
							}
							w, g := "?", "?"
							if i < len(want) {
								w = want[i]
							}
							if i < len(got) {
								g = got[i]
							}
							cls := "wrong-position"
							if strings.HasPrefix(w, "invalid") && strings.HasPrefix(g, "valid") {
								cls = "valid-but-should-be-invalid"
							} else if strings.HasPrefix(w, "valid") && strings.HasPrefix(g, "invalid") {
								cls = "invalid-but-should-be-valid"
							}
							run.Report(vf.Violation{Sig: fmt.Sprintf("%s|cursor|%s|step%d|%s", drv, curShape(p), i, cls),
								Detail: fmt.Sprintf("driver %s state %s cursor [%s]: model %v, driver %v", drv, S, curString(p), want, got),
								Replay: map[string]any{"driver": drv, "state": S.String(), "cursor": curString(p), "model": want, "driver_obs": got}})
						}
					}
					// every mutator from S
					for _, m := range muts {
						mod := buildModel(S)
						var wantTx obs
						merr, _ := applyMut(mod, m, func(tx kvi.KVTransaction) { wantTx, _ = readTx(tx) })
						var gotTx obs
						var txPanic string
						derr, pan := applyMut(st.kv, m, func(tx kvi.KVTransaction) { gotTx, txPanic = readTx(tx) })
						transitions++
						dirty := false
						if pan != "" || txPanic != "" {
							run.Report(vf.Violation{Sig: fmt.Sprintf("%s|mut=%s|panic", drv, m.shape()),
								Detail: fmt.Sprintf("driver %s state %s mutator %s panicked: %s%s", drv, S, m, pan, txPanic),
								Replay: map[string]any{"driver": drv, "state": S.String(), "mutator": m.String()}})
							dirty = true
						} else {
							if (merr == nil) != (derr == nil) {
								run.Report(vf.Violation{Sig: fmt.Sprintf("%s|mut=%s|error-ness", drv, m.shape()),
									Detail: fmt.Sprintf("driver %s state %s mutator %s: model err=%v driver err=%v", drv, S, m, merr, derr),
									Replay: map[string]any{"driver": drv, "state": S.String(), "mutator": m.String()}})
							}
							for i := range wantTx.labels {
								if i < len(gotTx.vals) && wantTx.vals[i] != gotTx.vals[i] {
									run.Report(vf.Violation{Sig: fmt.Sprintf("%s|in-tx|%s", drv, labelKind(wantTx.labels[i])),
										Detail: fmt.Sprintf("driver %s state %s inside %s: %s model %s driver %s", drv, S, m, wantTx.labels[i], wantTx.vals[i], gotTx.vals[i]),
										Replay: map[string]any{"driver": drv, "state": S.String(), "mutator": m.String(), "obs": wantTx.labels[i]}})
								}
							}
							want, _ := readState(mod)
							got, rpan := readState(st.kv)
							if rpan != "" {
								run.Report(vf.Violation{Sig: fmt.Sprintf("%s|read-panic", drv),
									Detail: fmt.Sprintf("driver %s state %s after %s: read battery panicked: %s", drv, S, m, rpan),
									Replay: map[string]any{"driver": drv, "state": S.String(), "mutator": m.String()}})
								dirty = true
							} else {
								stateBad := false
								for i := range want.labels {
									if want.vals[i] != got.vals[i] {
										k := labelKind(want.labels[i])
										if k == "scan-forward" || k == "scan-reverse" || k == "Get" || k == "it.Get" {
											stateBad = true
										}
										if k != "HasKey" {
											k = "state"
										}
										run.Report(vf.Violation{Sig: fmt.Sprintf("%s|mut=%s|%s", drv, m.shape(), k),
											Detail: fmt.Sprintf("driver %s state %s after %s: %s model %s driver %s", drv, S, m, want.labels[i], want.vals[i], got.vals[i]),
											Replay: map[string]any{"driver": drv, "state": S.String(), "mutator": m.String(), "obs": want.labels[i]}})
									}
								}
								if stateBad {
									dirty = true
								}
								mu.Lock()
								distinctOutcomes[strings.Join(want.vals, "|")] = true
								mu.Unlock()
							}
						}
						// move back to S
						if !dirty {
							ns := stateOf(mod)
							for i, k := range c10Keys {
								if ns[i] != S[i] {
									switch S[i] {
									case 0:
										st.kv.Delete([]byte(k))
									case 1:
										st.kv.Set([]byte(k), []byte(""))
									case 2:
										st.kv.Set([]byte(k), []byte("x"))
									}
								}
							}
							w, _ := readState(model)
							g, p2 := readState(st.kv)
							if p2 != "" || strings.Join(w.vals, "|") != strings.Join(g.vals, "|") {
								dirty = true
							}
						}
						if dirty {
							st.open()
							opens++
							for _, pm := range seen[S] {
								applyMut(st.kv, pm, nil)
							}
						}
						if si == 40 && transitions%37 == 0 {
							mu.Lock()
							if len(samples) < 6 {
								samples = append(samples, map[string]any{"driver": drv, "state": S.String(), "mutator": m.String()})
							}
							mu.Unlock()
						}
					}
					// thorough: full cursor battery inside an Update transaction as well
					if thorough {
						for _, p := range programs {
							if len(p) > 2 {
								continue
							}
							want, _ := runCursor(func(f func(kvi.KVIterator) error) error {
								return model.Update(func(tx kvi.KVTransaction) error { return tx.View(f) })
							}, p, nil)
							got, pan := runCursor(func(f func(kvi.KVIterator) error) error {
								return st.kv.Update(func(tx kvi.KVTransaction) error { return tx.View(f) })
							}, p, want)
							cursorRuns++
							if pan != "" {
								run.Report(vf.Violation{Sig: fmt.Sprintf("%s|tx-cursor|%s|panic", drv, curShape(p)),
									Detail: fmt.Sprintf("driver %s state %s tx cursor %s panicked: %s", drv, S, curString(p), pan),
									Replay: map[string]any{"driver": drv, "state": S.String(), "cursor": curString(p)}})
								st.open()
								for _, m := range seen[S] {
									applyMut(st.kv, m, nil)
								}
								continue
							}
							if strings.Join(want, "|") != strings.Join(got, "|") {
								run.Report(vf.Violation{Sig: fmt.Sprintf("%s|tx-cursor|%s", drv, curShape(p)),
									Detail: fmt.Sprintf("driver %s state %s tx cursor [%s]: model %v, driver %v", drv, S, curString(p), want, got),
									Replay: map[string]any{"driver": drv, "state": S.String(), "cursor": curString(p)}})
							}
						}
					}
				}
				st.close()
			}()
		}
	}
	wg.Wait()
	transitions, cursorRuns, opens := gTransitions, gCursorRuns, gOpens
	if len(samples) == 0 {
		samples = append(samples, map[string]any{"driver": "badger", "state": order[len(order)/2].String(), "mutator": muts[len(muts)/2].String()})
	}
	samples = append(samples, map[string]any{"cursor_program": curString(programs[len(programs)/2])})
	run.Coverage["states"] = len(order) * len(drivers)
	run.Coverage["model_states"] = len(order)
	run.Coverage["transitions"] = transitions
	run.Coverage["traces_validated_against_impl"] = transitions + cursorRuns
	run.Coverage["cursor_program_runs"] = cursorRuns
	run.Coverage["cursor_programs"] = len(programs)
	run.Coverage["mutators"] = len(muts)
	run.Coverage["store_opens"] = opens
	run.Coverage["per_driver_transitions"] = perDriver
	run.Coverage["distinct_outcomes"] = len(distinctOutcomes)
	run.Coverage["samples"] = samples
	run.Coverage["exhaustive"] = true
	run.Coverage["rule"] = "81 abstract states (4 keys x {absent,\"\",\"x\"}) x every mutator of the alphabet x 4 drivers; every cursor program of length<=3 over Seek/SeekReverse(7 probe keys)/Next on every state"
	run.Assume = []string{
		"memkv (harness/memkv) is the definition of 'ordered byte-string map': snapshot View, atomic Update/BulkWrite with rollback on callback error",
		"Next on an iterator the model says is invalid is outside the contract (grip always tests Valid first)",
		"error-ness of Seek/Next is not compared, only Valid/Key/Value after each step",
		"empty keys are outside the contract (grip never writes one)",
	}
	_ = bytes.Compare
	return run.Finish()
}
