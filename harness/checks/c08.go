package checks

// C08: has() conditions mean what the documentation says, for every value.
//
// Finite product (exhaustive): 12 operators x 14 element values x all argument
// shapes, each evaluated (a) directly by logic.MatchesHasExpression on a
// traveler and (b) through the production pipeline V().has(expr) on a graph with
// one vertex per value, against the reference evaluator refsem (written from
// operations.md). Boolean layer: every and/or/not expression up to a nesting
// bound over 4 atoms, truth-table oracle plus the metamorphic identities.

import (
	"fmt"
	"os"
	"sort"
	"strings"
	"time"

	"github.com/bmeg/grip/engine/logic"
	"github.com/bmeg/grip/gdbi"
	"github.com/bmeg/grip/gripql"
	"github.com/bmeg/grip/kvgraph"
	"google.golang.org/protobuf/types/known/structpb"

	"verif/harness/memkv"
	"verif/harness/qrun"
	"verif/harness/refsem"
	"verif/harness/vf"
)

type c08Val struct {
	Name    string
	Missing bool
	V       any
}

func c08Values() []c08Val {
	return []c08Val{
		{Name: "missing", Missing: true},
		{Name: "null", V: nil},
		{Name: "true", V: true},
		{Name: "false", V: false},
		{Name: "0", V: 0.0},
		{Name: "-1", V: -1.0},
		{Name: "1.5", V: 1.5},
		{Name: "1e308", V: 1e308},
		{Name: "text7", V: "7"},
		{Name: "abc", V: "abc"},
		{Name: "empty-string", V: ""},
		{Name: "list", V: []any{1.0, "a"}},
		{Name: "empty-list", V: []any{}},
		{Name: "map", V: map[string]any{"k": 1.0}},
	}
}

func kindOf(missing bool, v any) string {
	if missing {
		return "missing"
	}
	switch x := v.(type) {
	case nil:
		return "null"
	case bool:
		return "bool"
	case float64:
		return "number"
	case string:
		if _, ok := refsem.Num(x); ok {
			return "numeric-text"
		}
		return "text"
	case []any:
		return "list"
	case map[string]any:
		return "map"
	}
	return "other"
}

func argKind(v any) string {
	if l, ok := v.([]any); ok {
		var k []string
		for _, x := range l {
			k = append(k, kindOf(false, x))
		}
		return "list[" + strings.Join(k, ",") + "]"
	}
	return kindOf(false, v)
}

func mkCond(op gripql.Condition, key string, arg any) *gripql.HasExpression {
	sv, err := structpb.NewValue(arg)
	if err != nil {
		panic(err)
	}
	return &gripql.HasExpression{Expression: &gripql.HasExpression_Condition{Condition: &gripql.HasCondition{Key: key, Value: sv, Condition: op}}}
}

func c08Args(op gripql.Condition) []any {
	scalars := []any{nil, true, false, 0.0, -1.0, 1.5, 1e308, "7", "abc", ""}
	var out []any
	switch op {
	case gripql.Condition_INSIDE, gripql.Condition_OUTSIDE, gripql.Condition_BETWEEN:
		nums := []float64{-1, 0, 1, 1.5}
		for _, a := range nums {
			for _, b := range nums {
				out = append(out, []any{a, b})
			}
		}
		out = append(out, []any{}, []any{1.0}, []any{1.0, 2.0, 3.0}, []any{"a", "b"}, []any{nil, 1.0}, []any{"0", "2"}, []any{-1e308, 1e308}, 1.0, "abc", nil, map[string]any{"k": 1.0})
	case gripql.Condition_WITHIN, gripql.Condition_WITHOUT:
		out = append(out, []any{})
		for _, s := range scalars {
			out = append(out, []any{s})
		}
		out = append(out, []any{1.0, "a"}, []any{[]any{1.0, "a"}}, []any{0.0, "abc", true}, []any{map[string]any{"k": 1.0}}, 1.5, "abc", nil, map[string]any{"k": 1.0})
	default:
		out = append(out, scalars...)
		out = append(out, []any{1.0, "a"}, []any{}, map[string]any{"k": 1.0}, 1.0, "a")
	}
	return out
}

func matchSafe(t gdbi.Traveler, e *gripql.HasExpression) (r bool, pan string) {
	defer func() {
		if x := recover(); x != nil {
			pan = fmt.Sprint(x)
		}
	}()
	return logic.MatchesHasExpression(t, e), ""
}

// C08 runs the check.
func C08(tier string) int {
	run := vf.NewRun("C08", tier, "exploration")
	thorough := tier == "thorough"
	vals := c08Values()
	// fixture: one vertex per value
	kv := memkv.New()
	db := kvgraph.NewKVGraph(kv)
	db.AddGraph("g")
	gi, _ := db.Graph("g")
	travs := map[string]gdbi.Traveler{}
	for _, v := range vals {
		data := map[string]any{}
		if !v.Missing {
			data["f"] = v.V
		}
		el := &gdbi.Vertex{ID: v.Name, Label: "L", Data: data, Loaded: true}
		if err := gi.AddVertex([]*gdbi.Vertex{el}); err != nil {
			fmt.Fprintln(os.Stderr, "C08: cannot add fixture vertex", v.Name, err)
			return 2
		}
		// the traveler carries the value as it comes back from the store
		stored := gi.GetVertex(v.Name, true)
		travs[v.Name] = (&gdbi.BaseTraveler{}).AddCurrent(stored)
	}
	ops := []gripql.Condition{gripql.Condition_EQ, gripql.Condition_NEQ, gripql.Condition_GT, gripql.Condition_GTE, gripql.Condition_LT, gripql.Condition_LTE,
		gripql.Condition_INSIDE, gripql.Condition_OUTSIDE, gripql.Condition_BETWEEN, gripql.Condition_WITHIN, gripql.Condition_WITHOUT, gripql.Condition_CONTAINS}
	evals, pipeRuns, undefinedSkipped := 0, 0, 0
	distinct := map[string]bool{}
	var samples []string
	lookupOf := func(v c08Val) func(string) any {
		return func(key string) any {
			if key == "f" && !v.Missing {
				return v.V
			}
			return nil
		}
	}
	for _, op := range ops {
		for _, arg := range c08Args(op) {
			expr := mkCond(op, "f", arg)
			wantKept := []string{}
			undefined := false
			for _, v := range vals {
				want := refsem.Cond(op, lookupOf(v)("f"), arg)
				if want == refsem.Undefined {
					undefined = true
					undefinedSkipped++
					// crash freedom still holds
					if _, pan := matchSafe(travs[v.Name], expr); pan != "" {
						run.Report(vf.Violation{Sig: fmt.Sprintf("cond|%s|panic", op), Detail: fmt.Sprintf("%s on value %s panicked: %s", refsem.HasString(expr), v.Name, pan), Replay: map[string]any{"op": op.String(), "arg": arg, "value": v.Name}})
					}
					continue
				}
				got, pan := matchSafe(travs[v.Name], expr)
				evals++
				distinct[fmt.Sprintf("%s|%s|%s|%v", op, kindOf(v.Missing, v.V), argKind(arg), want)] = true
				if pan != "" {
					run.Report(vf.Violation{Sig: fmt.Sprintf("cond|%s|panic", op), Detail: fmt.Sprintf("%s on value %s panicked: %s", refsem.HasString(expr), v.Name, pan), Replay: map[string]any{"op": op.String(), "arg": arg, "value": v.Name}})
					continue
				}
				if want == refsem.True {
					wantKept = append(wantKept, v.Name)
				}
				if got != (want == refsem.True) {
					run.Report(vf.Violation{Sig: fmt.Sprintf("cond|%s|value=%s|arg=%s|documented=%v", op, kindOf(v.Missing, v.V), argKind(arg), want == refsem.True),
						Detail: fmt.Sprintf("has(%s) on f=%s: documentation says %v, engine says %v", refsem.HasString(expr), v.Name, want == refsem.True, got),
						Replay: map[string]any{"op": op.String(), "arg": arg, "value": v.Name}})
				}
			}
			if len(samples) < 6 && evals%701 < 14 {
				samples = append(samples, refsem.HasString(expr))
			}
			// (b) through the production pipeline
			if undefined {
				continue
			}
			q := gripql.V().Has(expr)
			res := qrun.Run(gi.Compiler(), q.Statements, 20*time.Second)
			pipeRuns++
			if res.CompileErr != nil || res.TimedOut {
				run.Report(vf.Violation{Sig: fmt.Sprintf("pipeline|%s|compile-or-timeout", op), Detail: fmt.Sprintf("V().has(%s): err=%v timeout=%v", refsem.HasString(expr), res.CompileErr, res.TimedOut), Replay: map[string]any{"op": op.String(), "arg": arg}})
				continue
			}
			var gotKept []string
			for _, r := range res.Rows {
				gotKept = append(gotKept, extractGid(r))
			}
			sort.Strings(gotKept)
			sort.Strings(wantKept)
			if strings.Join(gotKept, ",") != strings.Join(wantKept, ",") {
				// attribute to the values that differ (same signature family as the direct evaluation)
				diff := symDiff(wantKept, gotKept)
				for _, name := range diff {
					var v c08Val
					for _, x := range vals {
						if x.Name == name {
							v = x
						}
					}
					run.Report(vf.Violation{Sig: fmt.Sprintf("cond|%s|value=%s|arg=%s|documented=%v", op, kindOf(v.Missing, v.V), argKind(arg), contains(wantKept, name)),
						Detail: fmt.Sprintf("V().has(%s): documentation keeps %v, traversal returned %v", refsem.HasString(expr), wantKept, gotKept),
						Replay: map[string]any{"op": op.String(), "arg": arg, "via": "pipeline"}})
				}
			}
		}
	}
	// ---- boolean layer
	atoms := []*gripql.HasExpression{
		mkCond(gripql.Condition_GT, "f", 0.0),
		mkCond(gripql.Condition_EQ, "f", "abc"),
		mkCond(gripql.Condition_CONTAINS, "f", "a"),
		mkCond(gripql.Condition_INSIDE, "f", []any{1.0}),
	}
	// boolean fixture values: only those on which every atom agrees with the documentation
	var bvals []c08Val
	for _, v := range vals {
		ok := true
		for _, a := range atoms {
			want := refsem.Has(a, lookupOf(v))
			got, pan := matchSafe(travs[v.Name], a)
			if pan != "" || want == refsem.Undefined || got != (want == refsem.True) {
				ok = false
			}
		}
		if ok {
			bvals = append(bvals, v)
		}
	}
	levels := [][]*gripql.HasExpression{atoms}
	all := append([]*gripql.HasExpression{}, atoms...)
	maxNest := 2
	build := func(prev []*gripql.HasExpression, lower []*gripql.HasExpression, restrict bool) []*gripql.HasExpression {
		var out []*gripql.HasExpression
		for _, e := range prev {
			out = append(out, gripql.Not(e))
			out = append(out, gripql.And(e), gripql.Or(e))
		}
		for _, a := range prev {
			partner := lower
			for _, b := range partner {
				out = append(out, gripql.And(a, b), gripql.Or(a, b))
				out = append(out, gripql.And(b, a), gripql.Or(b, a))
			}
		}
		return out
	}
	// nesting 1: over atoms; nesting 2: one operand of nesting 1, the other of nesting <=1
	n1 := build(atoms, atoms, false)
	n1 = append(n1, gripql.And(), gripql.Or())
	all = append(all, n1...)
	levels = append(levels, n1)
	lower := append(append([]*gripql.HasExpression{}, atoms...), n1...)
	n2 := build(n1, lower, false)
	all = append(all, n2...)
	levels = append(levels, n2)
	if thorough {
		maxNest = 3
		n3 := build(n2, atoms, true)
		all = append(all, n3...)
		levels = append(levels, n3)
	}
	boolEvals := 0
	for _, e := range all {
		for _, v := range bvals {
			want := refsem.Has(e, lookupOf(v))
			got, pan := matchSafe(travs[v.Name], e)
			boolEvals++
			if pan != "" {
				run.Report(vf.Violation{Sig: "bool|panic", Detail: fmt.Sprintf("%s on %s panicked: %s", refsem.HasString(e), v.Name, pan), Replay: refsem.HasString(e)})
				continue
			}
			if want != refsem.Undefined && got != (want == refsem.True) {
				run.Report(vf.Violation{Sig: fmt.Sprintf("bool|%s|truth-table", topKind(e)),
					Detail: fmt.Sprintf("%s on f=%s: truth table says %v, engine says %v", refsem.HasString(e), v.Name, want == refsem.True, got), Replay: refsem.HasString(e)})
			}
		}
	}
	// metamorphic identities on the implementation alone (over all fixture values)
	kept := func(e *gripql.HasExpression) string {
		var k []string
		for _, v := range vals {
			if g, _ := matchSafe(travs[v.Name], e); g {
				k = append(k, v.Name)
			}
		}
		return strings.Join(k, ",")
	}
	meta := 0
	for _, a := range lower {
		if kept(gripql.Not(gripql.Not(a))) != kept(a) {
			run.Report(vf.Violation{Sig: "bool|double-negation", Detail: "not(not(e)) keeps a different set than e for e=" + refsem.HasString(a), Replay: refsem.HasString(a)})
		}
		meta++
		for _, b := range lower {
			meta++
			if kept(gripql.Not(gripql.And(a, b))) != kept(gripql.Or(gripql.Not(a), gripql.Not(b))) {
				run.Report(vf.Violation{Sig: "bool|de-morgan-and", Detail: fmt.Sprintf("not(and(a,b)) != or(not a, not b) for a=%s b=%s", refsem.HasString(a), refsem.HasString(b)), Replay: nil})
			}
			if kept(gripql.Not(gripql.Or(a, b))) != kept(gripql.And(gripql.Not(a), gripql.Not(b))) {
				run.Report(vf.Violation{Sig: "bool|de-morgan-or", Detail: fmt.Sprintf("not(or(a,b)) != and(not a, not b) for a=%s b=%s", refsem.HasString(a), refsem.HasString(b)), Replay: nil})
			}
			if kept(gripql.And(a, b)) != kept(gripql.And(b, a)) || kept(gripql.Or(a, b)) != kept(gripql.Or(b, a)) {
				run.Report(vf.Violation{Sig: "bool|operand-order", Detail: fmt.Sprintf("operand order changes the kept set for a=%s b=%s", refsem.HasString(a), refsem.HasString(b)), Replay: nil})
			}
		}
	}
	// the boolean layer through the pipeline for every expression of nesting <= 1 and a stride of the rest
	for i, e := range all {
		if i >= len(atoms)+len(n1) && i%97 != 0 {
			continue
		}
		res := qrun.Run(gi.Compiler(), gripql.V().Has(e).Statements, 20*time.Second)
		pipeRuns++
		var gotKept []string
		for _, r := range res.Rows {
			gotKept = append(gotKept, extractGid(r))
		}
		sort.Strings(gotKept)
		var direct []string
		for _, v := range vals {
			if g, _ := matchSafe(travs[v.Name], e); g {
				direct = append(direct, v.Name)
			}
		}
		sort.Strings(direct)
		if res.CompileErr != nil || res.TimedOut || strings.Join(gotKept, ",") != strings.Join(direct, ",") {
			run.Report(vf.Violation{Sig: "bool|pipeline-differs-from-direct-evaluation", Detail: fmt.Sprintf("V().has(%s): traversal %v (err=%v timeout=%v), direct evaluation %v", refsem.HasString(e), gotKept, res.CompileErr, res.TimedOut, direct), Replay: refsem.HasString(e)})
		}
	}
	run.Coverage["evaluations"] = evals + boolEvals + meta
	run.Coverage["condition_evaluations"] = evals
	run.Coverage["boolean_expressions"] = len(all)
	run.Coverage["boolean_evaluations"] = boolEvals
	run.Coverage["boolean_max_nesting"] = maxNest
	run.Coverage["boolean_fixture_values"] = len(bvals)
	run.Coverage["metamorphic_checks"] = meta
	run.Coverage["pipeline_runs"] = pipeRuns
	run.Coverage["undefined_by_documentation_skipped"] = undefinedSkipped
	run.Coverage["distinct_nontrivial"] = len(distinct)
	run.Coverage["rule"] = "full product operators x element values x argument shapes (distinct = operator x value kind x argument kind x expected result); all and/or/not expressions up to the nesting bound over 4 atoms"
	run.Coverage["samples"] = samples
	run.Coverage["exhaustive"] = true
	run.Assume = []string{
		"reference evaluator harness/refsem/has.go is the reading of operations.md: strict JSON equality (missing = null); ordering tests only between numbers or numeric text, otherwise false; inside exclusive, between lower-inclusive, outside strict; within/contains by JSON equality",
		"without(x, <not a list>) is left undefined by the documentation and only checked for crash freedom",
		"numeric text = what strconv.ParseFloat accepts; the grid avoids inf/nan spellings",
		"the boolean layer uses only fixture values on which all four atoms already agree with the documentation, so atom-level findings are not charged twice",
	}
	return run.Finish()
}

func topKind(e *gripql.HasExpression) string {
	switch e.Expression.(type) {
	case *gripql.HasExpression_And:
		return "and"
	case *gripql.HasExpression_Or:
		return "or"
	case *gripql.HasExpression_Not:
		return "not"
	}
	return "cond"
}

func contains(l []string, s string) bool {
	for _, x := range l {
		if x == s {
			return true
		}
	}
	return false
}

func symDiff(a, b []string) []string {
	var o []string
	for _, x := range a {
		if !contains(b, x) {
			o = append(o, x)
		}
	}
	for _, x := range b {
		if !contains(a, x) {
			o = append(o, x)
		}
	}
	return o
}

// extractGid pulls the gid out of a canonical vertex/edge row.
func extractGid(row string) string {
	i := strings.Index(row, `"gid":"`)
	if i < 0 {
		return row
	}
	r := row[i+7:]
	j := strings.Index(r, `"`)
	if j < 0 {
		return row
	}
	return r[:j]
}
