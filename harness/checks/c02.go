package checks

// C02: query planning (index rewrite, load elision) never changes answers.
//
// Differential, bounded-exhaustive: every program of the space runs (A) through
// the production compiler core.NewCompiler(db, IndexStartOptimize) and (B) as
// the literal plan - the same statements through core.StatementProcessor with a
// pipeline state that forces every step to load and with no optimizer. Two
// backends: real kvgraph (ignores the 'do not load' hint for vertices, honours
// it for edges) and a thin wrapper that honours it everywhere, the way the
// Mongo/SQL drivers do. Plus count(P) == |rows(P)| and the equivalent spellings
// of label/id filters.

import (
	"context"
	"fmt"
	"sort"
	"strings"
	"time"

	"github.com/bmeg/grip/engine/core"
	"github.com/bmeg/grip/engine/pipeline"
	"github.com/bmeg/grip/gdbi"
	"github.com/bmeg/grip/gripql"

	"verif/harness/gmodel"
	"verif/harness/progenum"
	"verif/harness/qrun"
	"verif/harness/refsem"
	"verif/harness/sweep"
	"verif/harness/vf"
)

// noLoad honours load=false on every read path.
type noLoad struct {
	gdbi.GraphInterface
}

func strip(e *gdbi.DataElement, load bool) *gdbi.DataElement {
	if e == nil || load {
		return e
	}
	return &gdbi.DataElement{ID: e.ID, Label: e.Label, From: e.From, To: e.To, Loaded: false}
}

func (n noLoad) Compiler() gdbi.Compiler { return core.NewCompiler(n, core.IndexStartOptimize) }
func (n noLoad) GetVertex(id string, load bool) *gdbi.Vertex {
	return strip(n.GraphInterface.GetVertex(id, true), load)
}
func (n noLoad) GetEdge(id string, load bool) *gdbi.Edge {
	return strip(n.GraphInterface.GetEdge(id, true), load)
}
func (n noLoad) GetVertexList(ctx context.Context, load bool) <-chan *gdbi.Vertex {
	o := make(chan *gdbi.Vertex, 100)
	go func() {
		defer close(o)
		for v := range n.GraphInterface.GetVertexList(ctx, true) {
			o <- strip(v, load)
		}
	}()
	return o
}
func (n noLoad) GetEdgeList(ctx context.Context, load bool) <-chan *gdbi.Edge {
	o := make(chan *gdbi.Edge, 100)
	go func() {
		defer close(o)
		for v := range n.GraphInterface.GetEdgeList(ctx, true) {
			o <- strip(v, load)
		}
	}()
	return o
}
func stripChan(in chan gdbi.ElementLookup, load bool) chan gdbi.ElementLookup {
	o := make(chan gdbi.ElementLookup, 100)
	go func() {
		defer close(o)
		for r := range in {
			r.Vertex = strip(r.Vertex, load)
			r.Edge = strip(r.Edge, load)
			o <- r
		}
	}()
	return o
}
func (n noLoad) GetVertexChannel(ctx context.Context, req chan gdbi.ElementLookup, load bool) chan gdbi.ElementLookup {
	return stripChan(n.GraphInterface.GetVertexChannel(ctx, req, true), load)
}
func (n noLoad) GetOutChannel(ctx context.Context, req chan gdbi.ElementLookup, load bool, emitNull bool, l []string) chan gdbi.ElementLookup {
	return stripChan(n.GraphInterface.GetOutChannel(ctx, req, true, emitNull, l), load)
}
func (n noLoad) GetInChannel(ctx context.Context, req chan gdbi.ElementLookup, load bool, emitNull bool, l []string) chan gdbi.ElementLookup {
	return stripChan(n.GraphInterface.GetInChannel(ctx, req, true, emitNull, l), load)
}
func (n noLoad) GetOutEdgeChannel(ctx context.Context, req chan gdbi.ElementLookup, load bool, emitNull bool, l []string) chan gdbi.ElementLookup {
	return stripChan(n.GraphInterface.GetOutEdgeChannel(ctx, req, true, emitNull, l), load)
}
func (n noLoad) GetInEdgeChannel(ctx context.Context, req chan gdbi.ElementLookup, load bool, emitNull bool, l []string) chan gdbi.ElementLookup {
	return stripChan(n.GraphInterface.GetInEdgeChannel(ctx, req, true, emitNull, l), load)
}

// literalPlan compiles stmts without optimizer and with every step loading.
func literalPlan(gi gdbi.GraphInterface, stmts []*gripql.GraphStatement) (gdbi.Pipeline, error) {
	if err := core.Validate(stmts, nil); err != nil {
		return nil, err
	}
	ps := pipeline.NewPipelineState(stmts)
	for _, s := range ps.Steps {
		ps.StepOutputs[s] = []string{"*"}
	}
	var procs []gdbi.Processor
	for i, gs := range stmts {
		ps.SetCurStatment(i)
		p, err := core.StatementProcessor(gs, gi, ps)
		if err != nil {
			return nil, err
		}
		procs = append(procs, p)
	}
	return core.NewPipeline(gi, procs, ps), nil
}

type c02Target struct {
	name string
	gi   gdbi.GraphInterface
}

type c02Worker struct {
	progs   [][]refsem.Step
	targets []c02Target
	// programs from edgeStart on belong to the edge-centred sweep (progenum.EdgePrograms, one step deeper
	// than the full alphabet) and run on the edge-property fixture only
	edgeStart   int
	edgeTargets []c02Target
	// third party: the reference interpreter on the fresh stores. The literal plan shares the step
	// processors with the production plan, so a processor that itself ignores the planner's decision
	// (both plans wrong in the same way) is only visible against the documented semantics.
	ref    *c01Worker
	refIdx map[string]int    // target name -> index into ref.fixtures / ref.gis
	spell  [][][]refsem.Step // groups of programs that must return identical rows
}

func c02Alphabet() []refsem.Step {
	a := progenum.Alphabet(false)
	extra := []refsem.Step{
		{Op: "has", Has: gripql.Eq("$m1.s", "x")},
		{Op: "has", Has: gripql.Eq("w", 1.5)},
		{Op: "hasKey", Strs: []string{"w"}},
		{Op: "hasKey", Strs: []string{"$m1.n"}},
		{Op: "render", Tmpl: map[string]any{"x": "$m1.n", "y": "w"}},
		{Op: "distinct", Strs: []string{"n"}},
		{Op: "fields", Strs: []string{"w"}},
	}
	return append(a, extra...)
}

// c02Comparable: programs whose result does not depend on row order.
func c02Comparable(p []refsem.Step) bool {
	for i, s := range p {
		switch s.Op {
		case "limit", "skip", "range":
			// only at the end or right before a final count
			if !(i == len(p)-1 || (i == len(p)-2 && p[len(p)-1].Op == "count")) {
				return false
			}
		case "distinct":
			if !(i == len(p)-1 || (i == len(p)-2 && p[len(p)-1].Op == "count")) {
				return false
			}
			// a final distinct(fields): which row represents a group depends on arrival order, so only the
			// number of groups is compared (endsTrunc)
		}
	}
	return true
}

func c02Compilable(p []refsem.Step) bool {
	// statically: first step is a start, V/E only first; marks: select only of defined marks
	// (select of an undefined mark dereferences a nil element in both plans: C06's business)
	marks := map[string]bool{}
	if ty, _, _ := refsem.TypeOf(p); ty == refsem.IllTyped {
		return false
	}
	elem := true
	for i, s := range p {
		if (i == 0) != (s.Op == "V" || s.Op == "E") {
			return false
		}
		switch s.Op {
		case "unwind", "as":
			if !elem {
				return false // the compiler does not type these; on a non-element row they are C06's business
			}
		case "count", "render", "path":
			elem = false
		case "select":
			if len(s.Strs) > 1 {
				elem = false
			}
		}
		if s.Op == "as" {
			marks[s.Strs[0]] = true
		}
		if s.Op == "select" {
			for _, m := range s.Strs {
				if !marks[m] {
					return false
				}
			}
		}
	}
	return true
}

func newC02Worker(tier string) *c02Worker {
	w := &c02Worker{}
	maxLen := 3
	if tier == "thorough" {
		maxLen = 4
	}
	alpha := c02Alphabet()
	level := [][]refsem.Step{}
	for _, s := range progenum.Starts() {
		level = append(level, []refsem.Step{s})
	}
	w.progs = append(w.progs, level...)
	for l := 2; l <= maxLen; l++ {
		var next [][]refsem.Step
		for _, p := range level {
			for _, s := range alpha {
				np := append(append([]refsem.Step{}, p...), s)
				if !c02Compilable(np) {
					continue
				}
				// static typing of the compiler itself decides acceptance; both plans share it
				next = append(next, np)
			}
		}
		w.progs = append(w.progs, next...)
		level = next
	}
	fx := progenum.Fixtures()
	w.ref = &c01Worker{}
	w.refIdx = map[string]int{}
	addRef := func(name string, f progenum.Fixture, gi gdbi.GraphInterface) {
		w.refIdx[name] = len(w.ref.fixtures)
		w.ref.fixtures = append(w.ref.fixtures, f)
		w.ref.gis = append(w.ref.gis, gi)
	}
	for _, i := range []int{2, 4, 5} {
		_, gi := fx[i].LoadMem()
		w.targets = append(w.targets, c02Target{"kvgraph/" + fx[i].Name, gi}, c02Target{"noload/" + fx[i].Name, noLoad{gi}})
		addRef("kvgraph/"+fx[i].Name, fx[i], gi)
		addRef("noload/"+fx[i].Name, fx[i], noLoad{gi})
	}
	// stale-index store: F2 with vertex a relabelled P->Q and vertex c deleted
	{
		db, gi := fx[2].LoadMem()
		gmodel.ApplyDB(db, gmodel.Op{Kind: "AddVertex", G: "g", Elems: []gmodel.Elem{{ID: "a", Label: "PQ", Data: map[string]any{"n": 1.0, "s": "x"}}}})
		gmodel.ApplyDB(db, gmodel.Op{Kind: "DelVertex", G: "g", ID: "c"})
		w.targets = append(w.targets, c02Target{"kvgraph/F2-after-relabel-and-delete", gi}, c02Target{"noload/F2-after-relabel-and-delete", noLoad{gi}})
	}
	{
		_, gi := fx[6].LoadMem()
		w.edgeTargets = []c02Target{{"kvgraph/" + fx[6].Name, gi}, {"noload/" + fx[6].Name, noLoad{gi}}}
		addRef("kvgraph/"+fx[6].Name, fx[6], gi)
		addRef("noload/"+fx[6].Name, fx[6], noLoad{gi})
		w.edgeStart = len(w.progs)
		seen := map[string]bool{}
		for _, p := range w.progs {
			seen[refsem.ProgName(p)] = true
		}
		edgeLen := 5
		if tier == "thorough" {
			edgeLen = 6
		}
		for _, p := range progenum.EdgePrograms(edgeLen) {
			if !seen[refsem.ProgName(p)] && c02Compilable(p) {
				w.progs = append(w.progs, p)
			}
		}
	}
	// equivalent spellings as a prefix, followed by every continuation of length <= 2 (1 quick)
	lab := []refsem.Step{
		{Op: "hasLabel", Strs: []string{"P"}},
		{Op: "has", Has: gripql.Eq("_label", "P")},
		{Op: "has", Has: gripql.Within("_label", "P")},
		{Op: "has", Has: gripql.And(gripql.Eq("_label", "P"))},
	}
	ids := []refsem.Step{
		{Op: "hasId", Strs: []string{"a"}},
		{Op: "has", Has: gripql.Eq("_gid", "a")},
		{Op: "has", Has: gripql.Within("_gid", "a")},
		{Op: "has", Has: gripql.And(gripql.Eq("_gid", "a"))},
	}
	conts := [][]refsem.Step{{}}
	for _, s := range alpha {
		conts = append(conts, []refsem.Step{s})
	}
	if tier == "thorough" {
		for _, s := range alpha {
			for _, t := range alpha {
				conts = append(conts, []refsem.Step{s, t})
			}
		}
	}
	for _, fam := range [][]refsem.Step{lab, ids} {
		for _, c := range conts {
			var group [][]refsem.Step
			for _, sp := range fam {
				p := append([]refsem.Step{{Op: "V"}, sp}, c...)
				if !c02Compilable(p) || !c02Comparable(p) {
					group = nil
					break
				}
				group = append(group, p)
			}
			if group != nil {
				w.spell = append(w.spell, group)
			}
		}
	}
	return w
}

func (w *c02Worker) N() int { return len(w.progs) + len(w.spell) }
func (w *c02Worker) Describe(i int) string {
	if i < len(w.progs) {
		return refsem.ProgName(w.progs[i])
	}
	return "spellings of " + refsem.ProgName(w.spell[i-len(w.progs)][0])
}

type c02Out struct {
	rows    []string
	err     error
	timeout bool
}

func c02Canon(res qrun.Result) c02Out {
	o := c02Out{err: res.CompileErr, timeout: res.TimedOut}
	for _, r := range res.Rows {
		o.rows = append(o.rows, refsem.CanonJSON(r))
	}
	sort.Strings(o.rows)
	return o
}

func runA(gi gdbi.GraphInterface, p []refsem.Step) c02Out {
	return c02Canon(qrun.Run(gi.Compiler(), refsem.Stmts(p), 15*time.Second))
}
func runB(gi gdbi.GraphInterface, p []refsem.Step) c02Out {
	pipe, err := literalPlan(gi, refsem.Stmts(p))
	if err != nil {
		return c02Out{err: err}
	}
	return c02Canon(qrun.RunPipe(pipe, 15*time.Second))
}

// diff returns "" when A and B agree.
func c02Diff(a, b c02Out, countOnly bool) (string, string) {
	if a.timeout || b.timeout {
		return "", ""
	}
	if (a.err == nil) != (b.err == nil) {
		return "acceptance", fmt.Sprintf("production compiler error: %v; literal plan error: %v", a.err, b.err)
	}
	if a.err != nil {
		return "", ""
	}
	if countOnly {
		if len(a.rows) != len(b.rows) {
			return "row-count", fmt.Sprintf("production plan returned %d rows, literal plan %d", len(a.rows), len(b.rows))
		}
		return "", ""
	}
	if strings.Join(a.rows, "\n") != strings.Join(b.rows, "\n") {
		return listDirection("["+strings.Join(b.rows, " ")+"]", "["+strings.Join(a.rows, " ")+"]"),
			fmt.Sprintf("literal fully-loaded plan: %v\n production plan:           %v", b.rows, a.rows)
	}
	return "", ""
}

func endsTrunc(p []refsem.Step) bool {
	n := len(p)
	return n > 0 && (p[n-1].Op == "limit" || p[n-1].Op == "skip" || p[n-1].Op == "range" || (p[n-1].Op == "distinct" && len(p[n-1].Strs) > 0))
}

func storeClass(name string) string {
	b := strings.SplitN(name, "/", 2)[0]
	if strings.Contains(name, "after-relabel") {
		return b + "|stale-index-store"
	}
	return b + "|fresh-store"
}

func (w *c02Worker) Item(idx int, emit func(vf.Violation), st sweep.Stats, sample func(string)) {
	if idx >= len(w.progs) {
		group := w.spell[idx-len(w.progs)]
		for _, tg := range w.targets {
			base := runA(tg.gi, group[0])
			for _, p := range group[1:] {
				o := runA(tg.gi, p)
				st["spelling_runs"]++
				if d, detail := c02Diff(o, base, endsTrunc(p)); d != "" {
					emit(vf.Violation{Sig: fmt.Sprintf("spelling|%s|%s|%s", storeClass(tg.name), opSeq(p[2:]), spellKind(p[1])),
						Detail: fmt.Sprintf("on %s: %s and %s should be the same query: %s", tg.name, refsem.ProgName(group[0]), refsem.ProgName(p), detail),
						Replay: map[string]any{"programs": []string{refsem.ProgName(group[0]), refsem.ProgName(p)}, "target": tg.name}})
				}
			}
		}
		return
	}
	p := w.progs[idx]
	st["programs"]++
	if !c02Comparable(p) {
		st["order_dependent_skipped"]++
		return
	}
	targets := w.targets
	if idx >= w.edgeStart {
		targets = w.edgeTargets
	}
	for _, tg := range targets {
		a, b := runA(tg.gi, p), runB(tg.gi, p)
		st["runs"] += 2
		if len(a.rows) > 0 {
			st["runs_with_rows"]++
		}
		if a.timeout || b.timeout {
			st["undecided_timeouts"]++
		}
		d, detail := c02Diff(a, b, endsTrunc(p))
		if d != "" {
			minimal := true
			for k := 1; k < len(p); k++ {
				if !c02Comparable(p[:k]) {
					continue
				}
				if dd, _ := c02Diff(runA(tg.gi, p[:k]), runB(tg.gi, p[:k]), endsTrunc(p[:k])); dd != "" {
					minimal = false
					break
				}
			}
			if minimal {
				// on the stale-index store the known finding is a LIVE vertex listed under a label it no longer has;
				// a row for the vertex that was deleted there (id c) is something else
				if strings.Contains(tg.name, "after-relabel-and-delete") {
					inB := map[string]bool{}
					for _, r := range b.rows {
						inB[r] = true
					}
					for _, r := range a.rows {
						if !inB[r] && strings.Contains(r, `"gid":"c"`) {
							d = "row-for-a-deleted-vertex"
						}
					}
				}
				emit(vf.Violation{Sig: fmt.Sprintf("plan|%s|%s|%s", storeClass(tg.name), opSeq(p), d),
					Detail: fmt.Sprintf("%s on %s: %s", refsem.ProgName(p), tg.name, detail),
					Replay: map[string]any{"program": refsem.ProgName(p), "target": tg.name, "index": idx}})
			} else {
				st["non_minimal_disagreements"]++
			}
		}
		// the documented semantics on the fresh stores (well-typed programs the documentation defines)
		if fi, ok := w.refIdx[tg.name]; ok && d == "" {
			if ty, _, _ := refsem.TypeOf(p); ty == refsem.WellTyped {
				if dir, det := w.ref.compare(p, fi, st); dir != "" {
					minimal := true
					for k := 1; k < len(p); k++ {
						if ty, _, _ := refsem.TypeOf(p[:k]); ty != refsem.WellTyped {
							continue
						}
						if dd, _ := w.ref.compare(p[:k], fi, sweep.Stats{}); dd != "" {
							minimal = false
							break
						}
					}
					if minimal {
						emit(vf.Violation{Sig: fmt.Sprintf("semantics|%s|%s|%s", storeClass(tg.name), opSeq(p), dir),
							Detail: fmt.Sprintf("%s on %s: production and literal plan agree with each other but not with the documented semantics: %s", refsem.ProgName(p), tg.name, det),
							Replay: map[string]any{"program": refsem.ProgName(p), "target": tg.name, "index": idx}})
					}
				}
			}
		}
		// count(P) == |rows(P)|
		if a.err == nil && !a.timeout && p[len(p)-1].Op != "count" {
			pc := append(append([]refsem.Step{}, p...), refsem.Step{Op: "count"})
			c := runA(tg.gi, pc)
			st["runs"]++
			want := refsem.Canon(map[string]any{"count": float64(len(a.rows))})
			if c.err == nil && !c.timeout && (len(c.rows) != 1 || c.rows[0] != want) {
				// minimal only
				emit(vf.Violation{Sig: fmt.Sprintf("count|%s|%s", storeClass(tg.name), opSeq(p)),
					Detail: fmt.Sprintf("%s on %s returns %d rows but %s returns %v", refsem.ProgName(p), tg.name, len(a.rows), refsem.ProgName(pc), c.rows),
					Replay: map[string]any{"program": refsem.ProgName(pc), "target": tg.name}})
			}
		}
	}
	if idx%1499 == 0 {
		sample(refsem.ProgName(p))
	}
}

func spellKind(s refsem.Step) string {
	if s.Op != "has" {
		return s.Op
	}
	switch s.Has.Expression.(type) {
	case *gripql.HasExpression_And:
		return "and-wrapped"
	}
	return strings.ToLower(s.Has.GetCondition().Condition.String())
}

// C02 runs the check.
func C02(tier string, args []string) int {
	w := newC02Worker(tier)
	if sweep.IsWorker(args) {
		return sweep.RunWorker(w, args)
	}
	run := vf.NewRun("C02", tier, "exploration")
	budget := 10 * time.Minute
	if tier == "thorough" {
		budget = 45 * time.Minute
	}
	res := sweep.Run(run, "C02", tier, w, time.Now().Add(budget), 180*time.Second, func(idx int, stderr string, hang bool) {
		kind := "crash"
		if hang {
			kind = "hang"
		}
		site := sweep.PanicSite(stderr)
		sig := kind + "|" + site
		run.Report(vf.Violation{Sig: sig, Detail: fmt.Sprintf("worker %s while running %s: %s", kind, w.Describe(idx), site), Replay: map[string]any{"program": w.Describe(idx), "index": idx}})
	})
	run.Coverage["evaluations"] = res.Stats["runs"] + res.Stats["spelling_runs"]
	run.Coverage["programs"] = len(w.progs)
	run.Coverage["spelling_groups"] = len(w.spell)
	run.Coverage["targets"] = len(w.targets)
	run.Coverage["distinct_nontrivial"] = res.Stats["runs_with_rows"]
	run.Coverage["order_dependent_skipped"] = res.Stats["order_dependent_skipped"]
	run.Coverage["undecided_timeouts"] = res.Stats["undecided_timeouts"]
	run.Coverage["non_minimal_disagreements"] = res.Stats["non_minimal_disagreements"]
	run.Coverage["worker_crashes"] = res.Crashes
	run.Coverage["worker_hangs"] = res.Hangs
	run.Coverage["exhaustive"] = !res.DeadlineHit && res.Done >= w.N()
	run.Coverage["rule"] = "every statement sequence up to the length bound over the C01 alphabet widened by filters/projections that read earlier steps or marks, on 4 stores (F2, F4, F5 and F2 after a relabel and a delete) x 2 backends; production plan vs literal fully-loaded plan; count(P) vs |rows(P)|; 4 spellings x 2 families x continuations; non-trivial = production run with at least one row"
	s := res.Samples
	if len(s) == 0 {
		s = []string{refsem.ProgName(w.progs[len(w.progs)/2])}
	}
	run.Coverage["samples"] = s
	run.Assume = []string{
		"the literal plan is built with the exported core.StatementProcessor and a pipeline.State whose StepOutputs make every step load; no optimizer",
		"'noload' backend = kvgraph wrapped so that load=false strips properties on every read path (as the Mongo/SQL drivers do)",
		"programs whose result depends on row order (truncation or distinct followed by further steps) are skipped; a final truncation is compared by row count only",
		"programs that select an undefined mark are left to C06",
	}
	return run.Finish()
}
