package checks

// C03: any mutation history leaves exactly the abstract graph observable.
//
// Explicit-state BFS over API histories (engine histmc): every successor is a
// FRESH kvgraph on a fresh memkv with the history replayed plus one operation;
// after every step the full observation battery is compared with the reference
// model (gmodel). States are deduplicated on (model state, raw key dump, taint
// set). See DESIGN.md section 2.3 for the taint mechanism that lets the search
// continue past known defects without hiding new ones.

import (
	"fmt"
	"os"
	"sort"
	"strconv"
	"strings"
	"time"

	"github.com/bmeg/grip/gdbi"
	"github.com/bmeg/grip/kvgraph"

	"verif/harness/gmodel"
	"verif/harness/histmc"
	"verif/harness/memkv"
	"verif/harness/vf"
)

type ghState struct {
	hist  []gmodel.Op
	world gmodel.World
	taint map[string]bool
}

// graphChecker holds the pieces shared by C03, C04 and the driver replay of C10.
type graphChecker struct {
	run      *vf.Run
	u        gmodel.Universe
	open     func() *dbHandle // fresh database
	memKey   bool             // add the in-memory index registry (as far as the harness can know it) to the state key
	prop     string
	samples  []string
	outcomes map[string]bool
	nontriv  map[string]bool
}

// dbHandle is a real database plus what the harness needs to reopen and dump it.
type dbHandle struct {
	db     gdbi.GraphDB
	dump   func() string
	reopen func() gdbi.GraphDB
}

func memHandle() *dbHandle {
	kv := memkv.New()
	return &dbHandle{db: kvgraph.NewKVGraph(kv), dump: kv.DumpString,
		reopen: func() gdbi.GraphDB { return kvgraph.NewKVGraph(kv) }}
}

// The universe is forced to collide: one id / graph name of each kind is a proper prefix of another
// (vertices a, ab; edges e, ee; graphs g1, g10), because the key-value layout is built from prefixes.
func c03Universe(thorough bool) gmodel.Universe {
	return gmodel.Universe{
		Graphs:  []string{"g1", "g10"},
		VIDs:    []string{"a", "ab", "zz"},
		EIDs:    []string{"e", "ee", "zz"},
		VLabels: []string{"P", "PQ"},
		Filters: [][]string{nil, {"x"}, {"y"}, {"x", "y"}},
	}
}

func c03Ops(thorough bool) []gmodel.Op {
	var ops []gmodel.Op
	n1 := map[string]any{"n": 1.0}
	V := func(id, label string, data map[string]any) gmodel.Elem {
		return gmodel.Elem{ID: id, Label: label, Data: data}
	}
	E := func(id, from, to, label string) gmodel.Elem {
		return gmodel.Elem{Edge: true, ID: id, From: from, To: to, Label: label}
	}
	ops = append(ops, gmodel.Op{Kind: "AddGraph", G: "g1"})
	// vertices in g1
	for _, id := range []string{"a", "ab"} {
		for _, l := range []string{"P", "PQ"} {
			for _, d := range []map[string]any{nil, n1} {
				if !thorough && id == "ab" && d != nil {
					continue
				}
				ops = append(ops, gmodel.Op{Kind: "AddVertex", G: "g1", Elems: []gmodel.Elem{V(id, l, d)}})
			}
		}
	}
	// edges in g1
	for _, eid := range []string{"e", "ee"} {
		for _, ft := range [][2]string{{"a", "ab"}, {"ab", "a"}, {"a", "a"}, {"ab", "ab"}} {
			for _, l := range []string{"x", "y"} {
				if eid == "ee" && !(ft == [2]string{"a", "ab"} && l == "x") && !(ft == [2]string{"ab", "a"} && l == "y") {
					continue
				}
				if !thorough && eid == "e" && ft == [2]string{"ab", "ab"} {
					continue
				}
				ops = append(ops, gmodel.Op{Kind: "AddEdge", G: "g1", Elems: []gmodel.Elem{E(eid, ft[0], ft[1], l)}})
			}
		}
	}
	// deletes
	for _, id := range []string{"a", "ab", "zz"} {
		ops = append(ops, gmodel.Op{Kind: "DelVertex", G: "g1", ID: id})
	}
	for _, id := range []string{"e", "ee", "zz"} {
		ops = append(ops, gmodel.Op{Kind: "DelEdge", G: "g1", ID: id})
	}
	// batched and bulk
	ops = append(ops,
		gmodel.Op{Kind: "AddVertex", G: "g1", Elems: []gmodel.Elem{V("a", "P", nil), V("ab", "PQ", n1)}},
		gmodel.Op{Kind: "AddVertex", G: "g1", Elems: []gmodel.Elem{V("a", "PQ", nil), V("", "P", nil)}},
		gmodel.Op{Kind: "AddEdge", G: "g1", Elems: []gmodel.Elem{E("e", "a", "ab", "x"), E("ee", "ab", "a", "y")}},
		gmodel.Op{Kind: "BulkAdd", G: "g1", Elems: []gmodel.Elem{V("a", "P", nil), E("e", "a", "ab", "x")}},
		gmodel.Op{Kind: "BulkAdd", G: "g1", Elems: []gmodel.Elem{V("ab", "PQ", nil), E("ee", "ab", "ab", "y")}},
		gmodel.Op{Kind: "BulkAdd", G: "g1", Elems: []gmodel.Elem{V("a", "PQ", n1), V("ab", "", nil)}},
		gmodel.Op{Kind: "BulkAdd", G: "g1", Elems: []gmodel.Elem{E("e", "ab", "a", "y"), E("e", "", "a", "y")}},
	)
	// invalid single elements
	ops = append(ops,
		gmodel.Op{Kind: "AddVertex", G: "g1", Elems: []gmodel.Elem{V("", "P", nil)}},
		gmodel.Op{Kind: "AddVertex", G: "g1", Elems: []gmodel.Elem{V("a", "", nil)}},
		gmodel.Op{Kind: "AddVertex", G: "g1", Elems: []gmodel.Elem{V("a", "P", map[string]any{"_gid": 1.0})}},
		gmodel.Op{Kind: "AddVertex", G: "g1", Elems: []gmodel.Elem{V("a", "P", map[string]any{"a b": 1.0})}},
		gmodel.Op{Kind: "AddEdge", G: "g1", Elems: []gmodel.Elem{E("", "a", "ab", "x")}},
		gmodel.Op{Kind: "AddEdge", G: "g1", Elems: []gmodel.Elem{E("e", "", "ab", "x")}},
		gmodel.Op{Kind: "AddEdge", G: "g1", Elems: []gmodel.Elem{E("e", "a", "", "x")}},
		gmodel.Op{Kind: "AddEdge", G: "g1", Elems: []gmodel.Elem{E("e", "a", "ab", "")}},
		gmodel.Op{Kind: "AddGraph", G: "bad name"},
	)
	// second graph: isolation probe (quick) / full alphabet subset (thorough)
	ops = append(ops,
		gmodel.Op{Kind: "AddGraph", G: "g10"},
		gmodel.Op{Kind: "DeleteGraph", G: "g10"},
		gmodel.Op{Kind: "DeleteGraph", G: "g1"},
		gmodel.Op{Kind: "AddVertex", G: "g10", Elems: []gmodel.Elem{V("a", "PQ", nil)}},
		gmodel.Op{Kind: "AddEdge", G: "g10", Elems: []gmodel.Elem{E("e", "a", "a", "y")}},
	)
	if thorough {
		ops = append(ops,
			gmodel.Op{Kind: "AddVertex", G: "g10", Elems: []gmodel.Elem{V("ab", "P", n1)}},
			gmodel.Op{Kind: "AddEdge", G: "g10", Elems: []gmodel.Elem{E("ee", "a", "ab", "x")}},
			gmodel.Op{Kind: "DelVertex", G: "g10", ID: "a"},
			gmodel.Op{Kind: "DelEdge", G: "g10", ID: "e"},
		)
	}
	return ops
}

func listDirection(want, got string) string {
	parse := func(s string) (map[string]int, bool) {
		if !strings.HasPrefix(s, "[") || !strings.HasSuffix(s, "]") {
			return nil, false
		}
		m := map[string]int{}
		for _, f := range strings.Fields(s[1 : len(s)-1]) {
			m[f]++
		}
		return m, true
	}
	w, ok1 := parse(want)
	g, ok2 := parse(got)
	if !ok1 || !ok2 {
		switch {
		case want == "nil":
			return "present-but-should-be-absent"
		case got == "nil":
			return "absent-but-should-be-present"
		}
		return "different"
	}
	extra, missing := false, false
	for k, n := range g {
		if n > w[k] {
			extra = true
		}
	}
	for k, n := range w {
		if n > g[k] {
			missing = true
		}
	}
	switch {
	case extra && missing:
		return "different"
	case extra:
		return "extra"
	case missing:
		return "missing"
	}
	return "different"
}

// waitClock spins until the wall clock has advanced, so that every Touch of the
// next operation yields a timestamp different from all earlier ones.
func waitClock() {
	t := time.Now().UnixNano()
	for time.Now().UnixNano() == t {
	}
}

func histString(h []gmodel.Op) string {
	var s []string
	for _, o := range h {
		s = append(s, o.String())
	}
	return strings.Join(s, "; ")
}

// step replays s.hist on a fresh database, applies op and checks everything.
func (gc *graphChecker) step(s ghState, op gmodel.Op) histmc.Succ[ghState] {
	h := gc.open()
	db, dump := h.db, h.dump
	for _, o := range s.hist {
		if o.Kind == "Reopen" {
			db = h.reopen()
			continue
		}
		gmodel.ApplyDB(db, o)
	}
	hist := append(append([]gmodel.Op{}, s.hist...), op)
	rep := map[string]any{"history": histString(hist), "ops": hist}
	tsBefore := gmodel.Timestamps(db, gc.u.Graphs)
	waitClock()
	var err error
	var pan string
	if op.Kind == "Reopen" {
		db = h.reopen()
	} else {
		err, pan = gmodel.ApplyDB(db, op)
	}
	out := s.world.Apply(op)
	if pan != "" {
		gc.run.Report(vf.Violation{Sig: out.Class + "|panic", Detail: fmt.Sprintf("history [%s] panicked: %s", histString(hist), pan), Replay: rep})
		return histmc.Succ[ghState]{}
	}
	obs, opan := gmodel.ObserveDB(db, gc.u)
	if opan != "" {
		gc.run.Report(vf.Violation{Sig: out.Class + "|observe-panic", Detail: fmt.Sprintf("after history [%s] the observation battery panicked: %s", histString(hist), opan), Replay: rep})
		return histmc.Succ[ghState]{}
	}
	// choose the allowed post-state that explains the observation best
	best := -1
	var bestDiff []gmodel.Mismatch
	for i, w := range out.Worlds {
		d := untainted(gmodel.Diff(w.Observe(gc.u), obs), s.taint)
		if best < 0 || len(d) < len(bestDiff) {
			best, bestDiff = i, d
		}
	}
	next := out.Worlds[best]
	if best < len(out.Dev) && out.Dev[best] != "" {
		gc.run.Report(vf.Violation{Sig: out.Class + "|deviation|" + out.Dev[best],
			Detail: fmt.Sprintf("history [%s]: the implementation's state equals the disallowed outcome %q (%s) instead of %s", histString(hist), out.Dev[best], next.Key(), out.Worlds[0].Key()),
			Replay: rep})
	}
	taint := map[string]bool{}
	for k := range s.taint {
		taint[k] = true
	}
	seenComp := map[string]bool{}
	for _, m := range bestDiff {
		// one report per component AND direction: an entry that is missing must not hide behind an extra
		// entry of the same component that a listed finding explains
		if seenComp[m.Comp+"|"+listDirection(m.Want, m.Got)] {
			continue
		}
		seenComp[m.Comp+"|"+listDirection(m.Want, m.Got)] = true
		sig := fmt.Sprintf("%s|%s|%s", out.Class, m.Comp, listDirection(m.Want, m.Got))
		gc.run.Report(vf.Violation{Sig: sig,
			Detail: fmt.Sprintf("history [%s]: %s %s: model %s, implementation %s", histString(hist), m.Comp, m.Item, m.Want, m.Got),
			Replay: rep})
		taint[m.Comp] = true
		if f := gc.run.Known(sig); f != nil {
			for _, t := range f.Taints {
				taint[t] = true
			}
		}
	}
	// return value and timestamps are judged only where the model still knows which
	// elements exist (not behind a defect that corrupted the element components)
	reliable := !(s.taint["lookup-v"] || s.taint["lookup-e"] || s.taint["list-v"] || s.taint["list-e"])
	if reliable && out.MustErr && err == nil {
		gc.run.Report(vf.Violation{Sig: out.Class + "|retval|accepted-but-must-be-rejected",
			Detail: fmt.Sprintf("history [%s]: the last call returned nil but must be rejected", histString(hist)), Replay: rep})
	}
	if reliable && out.MustOK && err != nil {
		gc.run.Report(vf.Violation{Sig: out.Class + "|retval|unexpected-error",
			Detail: fmt.Sprintf("history [%s]: the last call failed: %v", histString(hist), err), Replay: rep})
	}
	// timestamps
	if op.Kind != "Reopen" && reliable {
		tsAfter := gmodel.Timestamps(db, gc.u.Graphs)
		for _, g := range gc.u.Graphs {
			b, ok1 := tsBefore[g]
			a, ok2 := tsAfter[g]
			if !ok1 || !ok2 {
				continue
			}
			changed := s.world.GraphKey(g) != next.GraphKey(g)
			switch {
			case changed && a == b:
				gc.run.Report(vf.Violation{Sig: out.Class + "|timestamp|not-bumped-by-mutation",
					Detail: fmt.Sprintf("history [%s]: graph %s changed (%s -> %s) but its timestamp stayed %s", histString(hist), g, s.world.GraphKey(g), next.GraphKey(g), a), Replay: rep})
			case !changed && a != b && g != op.G:
				gc.run.Report(vf.Violation{Sig: out.Class + "|timestamp|bumped-on-other-graph",
					Detail: fmt.Sprintf("history [%s]: graph %s was not addressed but its timestamp changed", histString(hist), g), Replay: rep})
			case !changed && a != b && err != nil:
				gc.run.Report(vf.Violation{Sig: out.Class + "|timestamp|bumped-by-failed-call",
					Detail: fmt.Sprintf("history [%s]: the call failed (%v) and graph %s is unchanged, but its timestamp changed", histString(hist), err, g), Replay: rep})
			}
		}
	}
	if len(taint) >= len(gmodel.Components) {
		return histmc.Succ[ghState]{}
	}
	key := next.Key() + "#" + dump() + "#" + strings.Join(histmc.SortedKeys(taint), ",")
	if gc.memKey {
		key += "#" + memFields(hist)
	}
	gc.note(hist, next, key)
	return histmc.Succ[ghState]{State: ghState{hist: hist, world: next, taint: taint}, Key: key}
}

func untainted(d []gmodel.Mismatch, taint map[string]bool) []gmodel.Mismatch {
	var o []gmodel.Mismatch
	for _, m := range d {
		if !taint[m.Comp] {
			o = append(o, m)
		}
	}
	return o
}

// memFields approximates the in-memory index registry: the graphs created since
// the last reopen and not deleted since.
func memFields(hist []gmodel.Op) string {
	m := map[string]bool{}
	for _, o := range hist {
		switch o.Kind {
		case "Reopen":
			m = map[string]bool{}
		case "AddGraph":
			if gmodel.ValidName(o.G) {
				m[o.G] = true
			}
		case "DeleteGraph":
			delete(m, o.G)
		}
	}
	return strings.Join(histmc.SortedKeys(m), ",")
}

var noteMu = make(chan struct{}, 1)

func (gc *graphChecker) note(hist []gmodel.Op, w gmodel.World, key string) {
	noteMu <- struct{}{}
	defer func() { <-noteMu }()
	wk := w.Key()
	gc.outcomes[wk] = true
	if wk != "" && wk != "g1{;}" {
		gc.nontriv[wk] = true
	}
	if len(gc.samples) < 5 && len(hist) >= 3 && len(gc.outcomes)%97 == 0 {
		gc.samples = append(gc.samples, histString(hist))
	}
}

// C03 runs the check.
func C03(tier string) int {
	run := vf.NewRun("C03", tier, "model_checking")
	thorough := tier == "thorough"
	depth := 5
	budget := 100 * time.Second
	if thorough {
		depth = 7
		budget = 25 * time.Minute
	}
	if d, err := strconv.Atoi(os.Getenv("VERIF_DEPTH")); err == nil {
		depth = d
	}
	gc := &graphChecker{run: run, u: c03Universe(thorough), prop: "C03", outcomes: map[string]bool{}, nontriv: map[string]bool{}}
	gc.open = memHandle
	ops := c03Ops(thorough)
	init := ghState{world: gmodel.World{}, taint: map[string]bool{}}
	st := histmc.BFS(init, "init", ops, depth, time.Now().Add(budget), gc.step)
	fillHistEvidence(run, st, len(ops), depth, gc)
	run.Assume = []string{
		"reference model gmodel: last write wins, vertex delete cascades, graphs isolated, invalid elements rejected without effect",
		"a failing batched call may have applied nothing or exactly its valid elements (both accepted)",
		"a successful call that changes nothing may or may not bump the timestamp; the wall clock is made to advance between operations",
		"store under the graph layer is memkv (the ordered-map model validated against the real drivers by C10)",
		"id/label universe: vertices a,b (+absent zz), labels P,Q, edges e,f, edge labels x,y, data {} or {n:1}; graphs g1,g2",
	}
	return run.Finish()
}

func fillHistEvidence(run *vf.Run, st histmc.Stats, nops, depth int, gc *graphChecker) {
	run.Coverage["states"] = st.States
	run.Coverage["transitions"] = st.Transitions
	run.Coverage["traces_validated_against_impl"] = st.Transitions
	run.Coverage["depth_requested"] = depth
	run.Coverage["depth_completed"] = st.DepthDone
	run.Coverage["frontier_unexpanded"] = st.FrontierLeft
	run.Coverage["new_states_per_depth"] = st.PerDepth
	run.Coverage["pruned"] = st.Pruned
	run.Coverage["operations_in_alphabet"] = nops
	run.Coverage["exhaustive"] = st.Exhaustive && st.DepthDone >= depth
	run.Coverage["deadline_hit"] = st.DeadlineHit
	run.Coverage["distinct_model_states"] = len(gc.outcomes)
	run.Coverage["distinct_nontrivial"] = len(gc.nontriv)
	run.Coverage["evaluations"] = st.Transitions
	run.Coverage["rule"] = "breadth-first over all histories of the operation alphabet up to the depth; a state is distinct by (model state, raw key dump, taint set); non-trivial = model state with at least one element"
	s := gc.samples
	if len(s) == 0 {
		s = []string{"(no history of length>=3 sampled)"}
	}
	sort.Strings(s)
	run.Coverage["samples"] = s
}
