package checks

import (
	"fmt"
	"os"
	"path/filepath"
	"sync"

	"github.com/bmeg/grip/config"
	"github.com/bmeg/grip/gdbi"
	"github.com/bmeg/grip/server"

	"verif/harness/vf"
)

var stdoutMu sync.Mutex

// quietStdout runs f with os.Stdout pointed at /dev/null (parts of grip print with fmt.Printf).
func quietStdout(f func()) {
	stdoutMu.Lock()
	defer stdoutMu.Unlock()
	real := os.Stdout
	dn, err := os.OpenFile(os.DevNull, os.O_WRONLY, 0)
	if err == nil {
		os.Stdout = dn
		defer func() { os.Stdout = real; dn.Close() }()
	}
	f()
}

var workOnce sync.Once
var workDir string

func harnessWorkDir() string {
	workOnce.Do(func() {
		workDir = filepath.Join(vf.Root(), ".work", fmt.Sprintf("srv-%d", os.Getpid()))
		os.MkdirAll(workDir, 0o755)
	})
	return workDir
}

// newServer builds a real GripServer around an injected graph database.
func newServer(db gdbi.GraphDB) *server.GripServer {
	return newServerWorkDir(db, filepath.Join(harnessWorkDir(), "work"))
}

// newServerWorkDir is newServer with a private work directory (temporary storage of traversals).
func newServerWorkDir(db gdbi.GraphDB, workDir string) *server.GripServer {
	conf := config.DefaultConfig()
	conf.Server.WorkDir = workDir
	conf.Default = "mem"
	var srv *server.GripServer
	var err error
	quietStdout(func() {
		srv, err = server.NewGripServer(conf, harnessWorkDir(), map[string]gdbi.GraphDB{"mem": db})
	})
	if err != nil {
		panic("cannot build GripServer: " + err.Error())
	}
	return srv
}
