package checks

// C18: bulk loading equals loading the same elements one by one.
//
// Explicit enumeration of every element stream up to a length bound over 9
// element kinds, delivered (a) through the real GripServer.BulkAdd and (b) one
// element at a time through GripServer.AddVertex/AddEdge on an identical fresh
// store; the complete observation battery of every graph and the reported
// counts must agree. util.StreamBatch is driven with batch sizes 1..3 (and the
// literal 50 at the boundaries 49..52, 99..102, 199..202) against recording add
// functions; and the per-element access filter is put in front of BulkAdd.

import (
	"context"
	"fmt"
	"io"
	"strings"
	"sync"
	"time"

	"github.com/bmeg/grip/accounts"
	"github.com/bmeg/grip/gdbi"
	"github.com/bmeg/grip/gripql"
	"github.com/bmeg/grip/kvgraph"
	"github.com/bmeg/grip/util"
	"google.golang.org/grpc"
	"google.golang.org/grpc/metadata"

	"verif/harness/gmodel"
	"verif/harness/memkv"
	"verif/harness/vf"
)

type c18Kind struct {
	Name string
	Mk   func() *gripql.GraphElement
}

func c18Kinds() []c18Kind {
	V := func(g, id, label string) func() *gripql.GraphElement {
		return func() *gripql.GraphElement {
			return &gripql.GraphElement{Graph: g, Vertex: &gripql.Vertex{Gid: id, Label: label}}
		}
	}
	E := func(g, id, from, to, label string) func() *gripql.GraphElement {
		return func() *gripql.GraphElement {
			return &gripql.GraphElement{Graph: g, Edge: &gripql.Edge{Gid: id, From: from, To: to, Label: label}}
		}
	}
	return []c18Kind{
		{"v(a:P)@g1", V("g1", "a", "P")},
		{"v(b:Q)@g1", V("g1", "b", "Q")},
		{"v(a:Q)@g2", V("g2", "a", "Q")},
		{"v(a:Q)@g1-relabel", V("g1", "a", "Q")},
		{"v(invalid)@g1", V("g1", "", "P")},
		{"e(e:a->b:x)@g1", E("g1", "e", "a", "b", "x")},
		{"e(invalid)@g1", E("g1", "f", "a", "", "x")},
		{"e(blank-gid)@g1", E("g1", "", "b", "a", "y")},
		{"e(nul-in-to)@g1", E("g1", "h", "a", "b\x00a", "x")},
		{"v(nul-in-gid)@g1", V("g1", "a\x00b", "P")},
		{"v(a:P)@missing", V("nosuch", "a", "P")},
		{"v(a:P)@schema", V("g1__schema__", "a", "P")},
	}
}

// c18ModelInvalid is the property's own reading of "invalid element", independent of the code under
// test (both the bulk path and the one-by-one path share gripql's Validate): blank gid or label, an
// edge without both endpoints, or an identifier that cannot be represented faithfully (NUL byte).
// A blank edge gid is not invalid on the server paths (a generated id is assigned, documented).
func c18ModelInvalid(e *gripql.GraphElement) bool {
	bad := func(s string) bool { return s == "" || strings.ContainsRune(s, 0) }
	if v := e.Vertex; v != nil {
		return bad(v.Gid) || bad(v.Label)
	}
	if ed := e.Edge; ed != nil {
		return strings.ContainsRune(ed.Gid, 0) || bad(ed.Label) || bad(ed.From) || bad(ed.To)
	}
	return true
}

type c18Stream struct {
	elems  []*gripql.GraphElement
	i      int
	result *gripql.BulkEditResult
}

func (b *c18Stream) Recv() (*gripql.GraphElement, error) {
	if b.i >= len(b.elems) {
		return nil, io.EOF
	}
	b.i++
	return b.elems[b.i-1], nil
}
func (b *c18Stream) SendAndClose(r *gripql.BulkEditResult) error { b.result = r; return nil }
func (b *c18Stream) Context() context.Context                    { return context.Background() }
func (b *c18Stream) SetHeader(metadata.MD) error                 { return nil }
func (b *c18Stream) SendHeader(metadata.MD) error                { return nil }
func (b *c18Stream) SetTrailer(metadata.MD)                      {}
func (b *c18Stream) SendMsg(m interface{}) error                 { return nil }
func (b *c18Stream) RecvMsg(m interface{}) error {
	e, err := b.Recv()
	if err != nil {
		return err
	}
	p := m.(*gripql.GraphElement)
	p.Graph, p.Vertex, p.Edge = e.Graph, e.Vertex, e.Edge
	return nil
}

type c18SS struct {
	grpc.ServerStream
	inner *c18Stream
}

func (s c18SS) Context() context.Context    { return context.Background() }
func (s c18SS) RecvMsg(m interface{}) error { return s.inner.RecvMsg(m) }
func (s c18SS) SendMsg(m interface{}) error { return nil }

// filtered adapts a grpc.ServerStream (the access filter) to Edit_BulkAddServer.
type c18Filtered struct {
	grpc.ServerStream
	result *gripql.BulkEditResult
}

func (f *c18Filtered) Recv() (*gripql.GraphElement, error) {
	m := new(gripql.GraphElement)
	if err := f.ServerStream.RecvMsg(m); err != nil {
		return nil, err
	}
	return m, nil
}
func (f *c18Filtered) SendAndClose(r *gripql.BulkEditResult) error { f.result = r; return nil }

type c18Access struct{ allow map[string]bool }

func (a c18Access) Enforce(user, graph string, op accounts.Operation) error {
	if a.allow[graph] {
		return nil
	}
	return fmt.Errorf("denied")
}

func c18Fresh() gdbi.GraphDB {
	db := kvgraph.NewKVGraph(memkv.New())
	db.AddGraph("g1")
	db.AddGraph("g2")
	return db
}

var c18U = gmodel.Universe{Graphs: []string{"g1", "g2", "nosuch", "g1__schema__"}, VIDs: []string{"a", "b", "zz"}, EIDs: []string{"e", "f", "zz"}, VLabels: []string{"P", "Q"}, Filters: [][]string{nil, {"x"}, {"y"}}}

// normGen replaces generated edge ids (the server assigns one to an edge without gid) by a placeholder.
func normGen(o gmodel.Obs) gmodel.Obs {
	out := gmodel.Obs{}
	for c, m := range o {
		out[c] = map[string]string{}
		for k, v := range m {
			out[c][k] = normGenStr(v)
		}
	}
	return out
}

func normGenStr(s string) string {
	// generated ids are 27-character ksuids following "E("
	var b strings.Builder
	for i := 0; i < len(s); {
		if strings.HasPrefix(s[i:], "E(") {
			j := strings.IndexByte(s[i+2:], ':')
			if j >= 20 {
				b.WriteString("E(<generated>")
				i += 2 + j
				continue
			}
		}
		b.WriteByte(s[i])
		i++
	}
	return b.String()
}

// C18 runs the check.
func C18(tier string) int {
	run := vf.NewRun("C18", tier, "model_checking")
	thorough := tier == "thorough"
	kinds := c18Kinds()
	maxLen := 3
	if thorough {
		maxLen = 4
	}
	var streams [][]int
	var rec func(cur []int)
	rec = func(cur []int) {
		streams = append(streams, append([]int{}, cur...))
		if len(cur) == maxLen {
			return
		}
		for i := range kinds {
			rec(append(cur, i))
		}
	}
	rec(nil)
	ctx := context.Background()
	states := map[string]bool{}
	transitions := 0
	var samples []string
	var mu sync.Mutex
	sem := make(chan struct{}, 16)
	var wg sync.WaitGroup
	for si, st := range streams {
		wg.Add(1)
		sem <- struct{}{}
		go func(si int, st []int) {
			defer wg.Done()
			defer func() { <-sem }()
			var names []string
			for _, k := range st {
				names = append(names, kinds[k].Name)
			}
			desc := "[" + strings.Join(names, ", ") + "]"
			rep := map[string]any{"stream": names}
			// (b) one by one
			dbB := c18Fresh()
			srvB := newServer(dbB)
			valid, invalid := 0, 0
			for _, k := range st {
				e := kinds[k].Mk()
				var err error
				if e.Vertex != nil {
					_, err = srvB.AddVertex(ctx, e)
				} else {
					_, err = srvB.AddEdge(ctx, e)
				}
				if err != nil {
					invalid++
				} else {
					valid++
					if c18ModelInvalid(e) {
						run.Report(vf.Violation{Sig: "single|accepts-invalid-element|" + kinds[k].Name, Detail: fmt.Sprintf("adding %s on its own succeeds although the element is invalid (blank or unrepresentable identifier)", kinds[k].Name), Replay: rep})
					}
				}
			}
			// (a) bulk
			dbA := c18Fresh()
			tsBefore := gmodel.Timestamps(dbA, []string{"g1", "g2"})
			emptyObs, _ := gmodel.ObserveDB(dbA, c18U)
			srvA := newServer(dbA)
			stream := &c18Stream{}
			for _, k := range st {
				stream.elems = append(stream.elems, kinds[k].Mk())
			}
			pan := ""
			done := make(chan struct{})
			go func() {
				defer close(done)
				defer func() {
					if r := recover(); r != nil {
						pan = fmt.Sprint(r)
					}
				}()
				srvA.BulkAdd(stream)
			}()
			select {
			case <-done:
			case <-time.After(30 * time.Second):
				pan = "hang"
			}
			mu.Lock()
			transitions += 2 * len(st)
			mu.Unlock()
			if pan != "" {
				run.Report(vf.Violation{Sig: "bulk|panic-or-hang|" + handlerPanicSite(pan), Detail: fmt.Sprintf("BulkAdd%s: %s", desc, pan), Replay: rep})
				return
			}
			oa, pa := gmodel.ObserveDB(dbA, c18U)
			ob, pb := gmodel.ObserveDB(dbB, c18U)
			if pa != "" || pb != "" {
				run.Report(vf.Violation{Sig: "bulk|observe-panic", Detail: fmt.Sprintf("BulkAdd%s: %s %s", desc, pa, pb), Replay: rep})
				return
			}
			// the timestamp of a graph that the stream changed must have moved (as it does when the same
			// elements are added one by one): clients use it to decide whether cached results are still good
			tsAfter := gmodel.Timestamps(dbA, []string{"g1", "g2"})
			for _, g := range []string{"g1", "g2"} {
				changed := false
				for _, c := range []string{"list-v", "list-e"} {
					if oa[c][g] != emptyObs[c][g] {
						changed = true
					}
				}
				if changed && tsAfter[g] == tsBefore[g] {
					run.Report(vf.Violation{Sig: "bulk|timestamp-not-moved|" + c18Class(st, kinds), Detail: fmt.Sprintf("BulkAdd%s changed graph %s but its timestamp is still %s", desc, g, tsAfter[g]), Replay: rep})
				}
			}
			seen := map[string]bool{}
			for _, m := range gmodel.Diff(normGen(ob), normGen(oa)) {
				if seen[m.Comp+"|"+listDirection(m.Want, m.Got)] {
					continue
				}
				seen[m.Comp+"|"+listDirection(m.Want, m.Got)] = true
				run.Report(vf.Violation{Sig: fmt.Sprintf("bulk|state|%s|%s|%s", c18Class(st, kinds), m.Comp, listDirection(m.Want, m.Got)),
					Detail: fmt.Sprintf("BulkAdd%s: %s %s: one-by-one gives %s, bulk gives %s", desc, m.Comp, m.Item, m.Want, m.Got), Replay: rep})
			}
			if stream.result == nil {
				run.Report(vf.Violation{Sig: "bulk|no-result", Detail: "BulkAdd" + desc + " returned no result", Replay: rep})
			} else {
				if int(stream.result.InsertCount) != valid {
					run.Report(vf.Violation{Sig: fmt.Sprintf("bulk|insert-count|%s", c18Class(st, kinds)),
						Detail: fmt.Sprintf("BulkAdd%s: InsertCount=%d but %d elements are valid (accepted one by one)", desc, stream.result.InsertCount, valid), Replay: rep})
				}
				if int(stream.result.ErrorCount) != invalid {
					run.Report(vf.Violation{Sig: fmt.Sprintf("bulk|error-count|%s", c18Class(st, kinds)),
						Detail: fmt.Sprintf("BulkAdd%s: ErrorCount=%d but %d elements are invalid (rejected one by one)", desc, stream.result.ErrorCount, invalid), Replay: rep})
				}
			}
			mu.Lock()
			states[fmt.Sprint(normGen(oa))] = true
			if len(samples) < 5 && si%211 == 0 && len(st) >= 2 {
				samples = append(samples, "BulkAdd"+desc)
			}
			mu.Unlock()
			// access filter in front: only g1 may be written
			if len(st) > 0 && len(st) <= 3 {
				dbF := c18Fresh()
				srvF := newServer(dbF)
				inner := &c18Stream{}
				for _, k := range st {
					inner.elems = append(inner.elems, kinds[k].Mk())
				}
				filt := &c18Filtered{ServerStream: &accounts.BulkWriteFilter{SS: c18SS{inner: inner}, User: "u", Access: c18Access{allow: map[string]bool{"g1": true, "g1__schema__": true, "nosuch": true}}}}
				func() {
					defer func() {
						if r := recover(); r != nil {
							run.Report(vf.Violation{Sig: "filter|panic|" + handlerPanicSite(fmt.Sprint(r)), Detail: fmt.Sprintf("filtered BulkAdd%s: %v", desc, r), Replay: rep})
						}
					}()
					srvF.BulkAdd(filt)
				}()
				of, _ := gmodel.ObserveDB(dbF, c18U)
				// expected: the same stream without the g2 elements, one by one
				dbX := c18Fresh()
				srvX := newServer(dbX)
				for _, k := range st {
					e := kinds[k].Mk()
					if e.Graph == "g2" {
						continue
					}
					if e.Vertex != nil {
						srvX.AddVertex(ctx, e)
					} else {
						srvX.AddEdge(ctx, e)
					}
				}
				ox, _ := gmodel.ObserveDB(dbX, c18U)
				mu.Lock()
				transitions += len(st)
				mu.Unlock()
				seen := map[string]bool{}
				for _, m := range gmodel.Diff(normGen(ox), normGen(of)) {
					if seen[m.Comp+"|"+listDirection(m.Want, m.Got)] {
						continue
					}
					seen[m.Comp+"|"+listDirection(m.Want, m.Got)] = true
					run.Report(vf.Violation{Sig: fmt.Sprintf("filter|state|%s|%s", m.Comp, listDirection(m.Want, m.Got)),
						Detail: fmt.Sprintf("BulkAdd%s behind a filter that forbids g2: %s %s: expected %s, got %s", desc, m.Comp, m.Item, m.Want, m.Got), Replay: rep})
				}
			}
		}(si, st)
	}
	wg.Wait()

	// ---- util.StreamBatch against recording add functions
	type el struct {
		n string
		e func() *gdbi.GraphElement
	}
	els := []el{
		{"v", func() *gdbi.GraphElement {
			return &gdbi.GraphElement{Graph: "g", Vertex: &gdbi.Vertex{ID: "v", Label: "L"}}
		}},
		{"v-invalid", func() *gdbi.GraphElement {
			return &gdbi.GraphElement{Graph: "g", Vertex: &gdbi.Vertex{ID: "", Label: "L"}}
		}},
		{"e", func() *gdbi.GraphElement {
			return &gdbi.GraphElement{Graph: "g", Edge: &gdbi.Edge{ID: "e", Label: "x", From: "v", To: "v"}}
		}},
		{"e-invalid", func() *gdbi.GraphElement {
			return &gdbi.GraphElement{Graph: "g", Edge: &gdbi.Edge{ID: "e", Label: "", From: "v", To: "v"}}
		}},
		{"other-graph", func() *gdbi.GraphElement {
			return &gdbi.GraphElement{Graph: "h", Vertex: &gdbi.Vertex{ID: "v", Label: "L"}}
		}},
	}
	sbRuns := 0
	checkSB := func(seq []int, batch int) {
		c := make(chan *gdbi.GraphElement, len(seq))
		wantV, wantE, wantErr := 0, 0, 0
		var names []string
		for n, i := range seq {
			e := els[i].e()
			if e.Vertex != nil {
				e.Vertex.ID = strings.Repeat("v", 0) + e.Vertex.ID
				if e.Vertex.ID != "" {
					e.Vertex.ID = fmt.Sprintf("v%d", n)
				}
			}
			if e.Edge != nil {
				e.Edge.ID = fmt.Sprintf("e%d", n)
			}
			c <- e
			names = append(names, els[i].n)
			switch els[i].n {
			case "v":
				wantV++
			case "e":
				wantE++
			default:
				wantErr++
			}
		}
		close(c)
		var mu2 sync.Mutex
		var gotV, gotE []string
		maxBatch := 0
		err := util.StreamBatch(c, batch, "g", func(vs []*gdbi.Vertex) error {
			mu2.Lock()
			defer mu2.Unlock()
			if len(vs) > maxBatch {
				maxBatch = len(vs)
			}
			for _, v := range vs {
				gotV = append(gotV, v.ID)
			}
			return nil
		}, func(es []*gdbi.Edge) error {
			mu2.Lock()
			defer mu2.Unlock()
			if len(es) > maxBatch {
				maxBatch = len(es)
			}
			for _, e := range es {
				gotE = append(gotE, e.ID)
			}
			return nil
		})
		sbRuns++
		desc := fmt.Sprintf("StreamBatch(batch=%d) over [%s]", batch, strings.Join(names, ","))
		var wv, we []string
		for n, i := range seq {
			if els[i].n == "v" {
				wv = append(wv, fmt.Sprintf("v%d", n))
			}
			if els[i].n == "e" {
				we = append(we, fmt.Sprintf("e%d", n))
			}
		}
		if strings.Join(gotV, ",") != strings.Join(wv, ",") || strings.Join(gotE, ",") != strings.Join(we, ",") {
			run.Report(vf.Violation{Sig: "streambatch|elements-delivered", Detail: fmt.Sprintf("%s: vertices delivered %v (want %v), edges %v (want %v)", desc, gotV, wv, gotE, we), Replay: desc})
		}
		if maxBatch > batch {
			run.Report(vf.Violation{Sig: "streambatch|batch-larger-than-limit", Detail: fmt.Sprintf("%s: a batch of %d", desc, maxBatch), Replay: desc})
		}
		if (err != nil) != (wantErr > 0) {
			run.Report(vf.Violation{Sig: "streambatch|error-ness", Detail: fmt.Sprintf("%s: error=%v with %d invalid elements", desc, err, wantErr), Replay: desc})
		}
	}
	var seqs [][]int
	var rec2 func(cur []int)
	sbLen := 4
	if thorough {
		sbLen = 5
	}
	rec2 = func(cur []int) {
		seqs = append(seqs, append([]int{}, cur...))
		if len(cur) == sbLen {
			return
		}
		for i := range els {
			rec2(append(cur, i))
		}
	}
	rec2(nil)
	for _, s := range seqs {
		for _, b := range []int{1, 2, 3} {
			checkSB(s, b)
		}
	}
	for _, n := range []int{49, 50, 51, 52, 99, 100, 101, 102, 199, 200, 201, 202} {
		s := make([]int, n)
		checkSB(s, 50) // all vertices
		for i := range s {
			s[i] = (i % 2) * 2 // alternate vertex/edge
		}
		checkSB(s, 50)
	}
	// long uniform streams through the server (buffer sizes 100)
	for _, n := range []int{99, 100, 101, 102, 199, 200, 201, 202} {
		db := c18Fresh()
		srv := newServer(db)
		st := &c18Stream{}
		for i := 0; i < n; i++ {
			st.elems = append(st.elems, &gripql.GraphElement{Graph: "g1", Vertex: &gripql.Vertex{Gid: fmt.Sprintf("v%03d", i), Label: "P"}})
		}
		done := make(chan struct{})
		go func() { defer close(done); srv.BulkAdd(st) }()
		select {
		case <-done:
		case <-time.After(60 * time.Second):
			run.Report(vf.Violation{Sig: "bulk|long-stream-hang", Detail: fmt.Sprintf("BulkAdd of %d vertices did not return", n), Replay: n})
			continue
		}
		gi, _ := db.Graph("g1")
		cnt := 0
		for range gi.GetVertexList(ctx, false) {
			cnt++
		}
		transitions += n
		if cnt != n || st.result == nil || int(st.result.InsertCount) != n {
			run.Report(vf.Violation{Sig: "bulk|long-stream-count", Detail: fmt.Sprintf("BulkAdd of %d vertices: stored %d, result %v", n, cnt, st.result), Replay: n})
		}
	}
	run.Coverage["states"] = len(states)
	run.Coverage["transitions"] = transitions
	run.Coverage["traces_validated_against_impl"] = len(streams) + sbRuns
	run.Coverage["streams"] = len(streams)
	run.Coverage["stream_max_length"] = maxLen
	run.Coverage["streambatch_runs"] = sbRuns
	run.Coverage["evaluations"] = len(streams) + sbRuns
	run.Coverage["distinct_nontrivial"] = len(states)
	run.Coverage["exhaustive"] = true
	run.Coverage["rule"] = "every element stream up to the length bound over 12 element kinds (valid/invalid vertices and edges incl. NUL bytes in an id or endpoint, relabel, blank edge id, second graph, missing graph, schema graph); StreamBatch: every sequence up to the bound over 5 element kinds x batch sizes 1,2,3 plus uniform streams around 50/100/200; states = distinct final observations"
	if len(samples) == 0 {
		samples = []string{"BulkAdd[v(a:P)@g1, e(e:a->b:x)@g1]"}
	}
	run.Coverage["samples"] = samples
	run.Assume = []string{
		"'valid element' = accepted by the one-by-one handler (AddVertex/AddEdge) on an identical fresh store; the final states are compared through the complete gmodel observation battery of g1, g2, the missing and the schema graph",
		"the server assigns generated ids to edges without one on both paths; such ids are compared as a placeholder",
		"store: kvgraph over memkv; the access filter is accounts.BulkWriteFilter with an injected policy that forbids g2",
	}
	return run.Finish()
}

func c18Class(st []int, kinds []c18Kind) string {
	f := map[string]bool{}
	for _, k := range st {
		n := kinds[k].Name
		switch {
		case strings.Contains(n, "@missing"):
			f["missing-graph"] = true
		case strings.Contains(n, "@schema"):
			f["schema-graph"] = true
		case strings.Contains(n, "@g2"):
			f["second-graph"] = true
		case strings.Contains(n, "invalid"):
			f["invalid-element"] = true
		case strings.Contains(n, "blank-gid"):
			f["blank-edge-id"] = true
		}
	}
	var o []string
	for k := range f {
		o = append(o, k)
	}
	if len(o) == 0 {
		return "valid-only"
	}
	sortStrings(o)
	return strings.Join(o, "+")
}

func sortStrings(s []string) {
	for i := 1; i < len(s); i++ {
		for j := i; j > 0 && s[j] < s[j-1]; j-- {
			s[j], s[j-1] = s[j-1], s[j]
		}
	}
}
