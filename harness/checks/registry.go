package checks

import (
	"io"
	stdlog "log"
	"os"

	"github.com/bmeg/grip/log"
	"github.com/sirupsen/logrus"
)

func init() {
	// the harness owns stdout/stderr; silence grip's logger (set VERIF_LOG=1 to see it)
	if os.Getenv("VERIF_LOG") == "" {
		log.GetLogger().SetOutput(io.Discard)
		log.GetLogger().SetLevel(logrus.PanicLevel)
		stdlog.SetOutput(io.Discard) // jobstorage logs every job with the standard logger
	}
}

// Registry maps a property id to its check. args holds extra command line
// arguments (e.g. --replay <file> is passed as tier "--replay", args [file]).
var Registry = map[string]func(tier string, args []string) int{
	"C10": func(t string, a []string) int { return C10(t) },
	"C03": func(t string, a []string) int { return C03(t) },
	"C04": func(t string, a []string) int { return C04(t) },
	"C09": func(t string, a []string) int { return C09(t) },
	"C08": func(t string, a []string) int { return C08(t) },
	"C05": func(t string, a []string) int { return C05(t) },
	"C20": func(t string, a []string) int { return C20(t) },
	"C16": func(t string, a []string) int { return C16(t) },
	"C01": C01,
	"C02": C02,
	"C06": C06,
	"C19": C19,
	"C15": C15,
	"C14": func(t string, a []string) int { return C14(t) },
	"C11": func(t string, a []string) int { return C11(t) },
	"C18": func(t string, a []string) int { return C18(t) },
}
