package checks

// C19: aggregations summarize exactly the rows they are given.
//
// Bounded-exhaustive: every multiset of size <= 3 (quick) / 4 (thorough) over 10
// field values (missing, numbers incl. negative/zero/fraction, strings, bool,
// list, map), stored as a one-vertex-per-value graph, x every aggregation
// instance and every pair of instances in one step, run as V().aggregate(...)
// through the production compiler/pipeline in crash-isolated workers. Oracle:
// direct computation over the rows of V() without aggregate(), exactly as far
// as the property states it.

import (
	"encoding/json"
	"fmt"
	"math"
	"sort"
	"strings"
	"time"

	"github.com/bmeg/grip/gdbi"
	"github.com/bmeg/grip/gripql"
	"github.com/bmeg/grip/kvgraph"

	"verif/harness/memkv"
	"verif/harness/qrun"
	"verif/harness/sweep"
	"verif/harness/vf"
)

var c19Vals = []struct {
	Name    string
	Missing bool
	V       any
}{
	{"missing", true, nil}, {"1", false, 1.0}, {"2.5", false, 2.5}, {"-3", false, -3.0}, {"0", false, 0.0},
	{"a", false, "a"}, {"b", false, "b"}, {"true", false, true}, {"list", false, []any{1.0}}, {"map", false, map[string]any{"k": 1.0}},
}

type c19Agg struct {
	Name string
	Kind string
	A    *gripql.Aggregate
	Size int
	Iv   float64
	Pct  []float64
}

func c19Aggs() []c19Agg { return c19AggsOn("f", "$._data") }

// c19AggsOn: the aggregation instances reading the value field and the property document under the given paths
// (the current element, or an element marked earlier: $e.f, $e._data).
func c19AggsOn(fieldPath, dataPath string) []c19Agg {
	mk := func(name, kind string, a *gripql.Aggregate) c19Agg {
		a.Name = name
		return c19Agg{Name: name, Kind: kind, A: a}
	}
	var out []c19Agg
	out = append(out, mk("count", "count", &gripql.Aggregate{Aggregation: &gripql.Aggregate_Count{Count: &gripql.CountAggregation{}}}))
	for _, sz := range []int{0, 1, 2} {
		a := mk(fmt.Sprintf("term-size%d", sz), "term", &gripql.Aggregate{Aggregation: &gripql.Aggregate_Term{Term: &gripql.TermAggregation{Field: fieldPath, Size: uint32(sz)}}})
		a.Size = sz
		out = append(out, a)
	}
	for _, iv := range []int{1, 2, 5} {
		a := mk(fmt.Sprintf("hist-iv%d", iv), "histogram", &gripql.Aggregate{Aggregation: &gripql.Aggregate_Histogram{Histogram: &gripql.HistogramAggregation{Field: fieldPath, Interval: uint32(iv)}}})
		a.Iv = float64(iv)
		out = append(out, a)
	}
	p := mk("pct", "percentile", &gripql.Aggregate{Aggregation: &gripql.Aggregate_Percentile{Percentile: &gripql.PercentileAggregation{Field: fieldPath, Percents: []float64{0, 25, 50, 100}}}})
	p.Pct = []float64{0, 25, 50, 100}
	out = append(out, p)
	out = append(out, mk("fields", "field", &gripql.Aggregate{Aggregation: &gripql.Aggregate_Field{Field: &gripql.FieldAggregation{Field: dataPath}}}))
	out = append(out, mk("type", "type", &gripql.Aggregate{Aggregation: &gripql.Aggregate_Type{Type: &gripql.TypeAggregation{Field: fieldPath}}}))
	return out
}

type c19Worker struct {
	multisets [][]int
	aggs      []c19Agg
	combos    [][]int // indexes into aggs (singles first, then pairs)
	viaEdge   bool    // the variant of item() in progress (items run one at a time in a worker)
	aggsE     []c19Agg
}

func newC19Worker(tier string) *c19Worker {
	w := &c19Worker{aggs: c19Aggs()}
	maxSize := 3
	if tier == "thorough" {
		maxSize = 4
	}
	var rec func(start int, cur []int)
	rec = func(start int, cur []int) {
		w.multisets = append(w.multisets, append([]int{}, cur...))
		if len(cur) == maxSize {
			return
		}
		for i := start; i < len(c19Vals); i++ {
			rec(i, append(cur, i))
		}
	}
	rec(0, nil)
	for i := range w.aggs {
		w.combos = append(w.combos, []int{i})
	}
	for i := range w.aggs {
		for j := i + 1; j < len(w.aggs); j++ {
			w.combos = append(w.combos, []int{i, j})
		}
	}
	return w
}

func (w *c19Worker) N() int { return len(w.multisets) }
func (w *c19Worker) Describe(i int) string {
	var s []string
	for _, v := range w.multisets[i] {
		s = append(s, c19Vals[v].Name)
	}
	return "f in {" + strings.Join(s, ", ") + "}"
}

type aggRow struct {
	Key   any
	Value float64
}

func parseAggRows(rows []string) map[string][]aggRow {
	out := map[string][]aggRow{}
	for _, r := range rows {
		var m map[string]map[string]any
		if json.Unmarshal([]byte(r), &m) != nil {
			continue
		}
		a := m["aggregations"]
		name, _ := a["name"].(string)
		val, _ := a["value"].(float64)
		out[name] = append(out[name], aggRow{a["key"], val})
	}
	return out
}

// canonCounts renders only the multiset of counts (ties make the kept keys of a size-limited term aggregation ambiguous).
func canonCounts(rows []aggRow) string {
	var s []string
	for _, r := range rows {
		s = append(s, fmt.Sprintf("%g", r.Value))
	}
	sort.Strings(s)
	return strings.Join(s, ",")
}

func canonAgg(rows []aggRow) string {
	var s []string
	for _, r := range rows {
		s = append(s, fmt.Sprintf("%s=%g", vf.J(r.Key), r.Value))
	}
	sort.Strings(s)
	return strings.Join(s, ",")
}

func valFlags(ms []int) string {
	if len(ms) == 0 {
		return "empty-input"
	}
	nonnum, boolv := false, false
	for _, i := range ms {
		switch c19Vals[i].V.(type) {
		case bool:
			boolv = true
		case string, []any, map[string]any:
			nonnum = true
		}
	}
	if boolv {
		return "boolean-value-present"
	}
	if nonnum {
		return "non-numeric-value-present"
	}
	return "numbers-and-missing-only"
}

// check one aggregation's rows against the property; returns issue tags.
func c19Check(a c19Agg, ms []int, rows []aggRow) []string {
	var issues []string
	var nums []float64
	scal := map[string]int{}
	keys := map[string]int{}
	nRows := len(ms)
	for _, i := range ms {
		v := c19Vals[i]
		if v.Missing {
			continue
		}
		keys["f"]++
		switch x := v.V.(type) {
		case float64:
			nums = append(nums, x)
			scal[vf.J(x)]++
		case string, bool:
			scal[vf.J(x)]++
		}
	}
	sort.Float64s(nums)
	switch a.Kind {
	case "count":
		if len(rows) != 1 || rows[0].Value != float64(nRows) {
			issues = append(issues, fmt.Sprintf("count-is-not-the-number-of-rows(want %d got %s)", nRows, canonAgg(rows)))
		}
	case "term":
		got := map[string]int{}
		for _, r := range rows {
			got[vf.J(r.Key)] += int(r.Value)
		}
		if a.Size == 0 || len(scal) <= a.Size {
			if fmt.Sprint(got) != fmt.Sprint(scal) {
				issues = append(issues, "term-frequencies-wrong")
			}
		} else {
			if len(rows) != a.Size {
				issues = append(issues, "size-limit-not-applied")
			} else {
				var want, have []int
				for _, n := range scal {
					want = append(want, n)
				}
				sort.Sort(sort.Reverse(sort.IntSlice(want)))
				for k, n := range got {
					have = append(have, n)
					if scal[k] != n {
						issues = append(issues, "term-frequencies-wrong")
					}
				}
				sort.Sort(sort.Reverse(sort.IntSlice(have)))
				if fmt.Sprint(have) != fmt.Sprint(want[:a.Size]) {
					issues = append(issues, "not-the-most-frequent-buckets")
				}
			}
		}
	case "histogram":
		sum := 0.0
		for _, r := range rows {
			k, ok := r.Key.(float64)
			if !ok {
				issues = append(issues, "bucket-key-not-a-number")
				continue
			}
			if math.Mod(k, a.Iv) != 0 {
				issues = append(issues, "bucket-not-aligned-to-interval")
			}
			n := 0
			for _, v := range nums {
				if v >= k && v < k+a.Iv {
					n++
				}
			}
			if float64(n) != r.Value {
				issues = append(issues, "bucket-count-wrong")
			}
			sum += r.Value
		}
		if sum != float64(len(nums)) {
			issues = append(issues, "buckets-do-not-sum-to-the-number-of-numeric-values")
		}
	case "percentile":
		if len(nums) == 0 {
			break
		}
		byP := map[float64]float64{}
		for _, r := range rows {
			p, _ := r.Key.(float64)
			byP[p] = r.Value
		}
		prev := math.Inf(-1)
		for _, p := range a.Pct {
			q, ok := byP[p]
			if !ok {
				issues = append(issues, "percentile-missing")
				continue
			}
			if q < nums[0]-1e-9 || q > nums[len(nums)-1]+1e-9 || math.IsNaN(q) {
				issues = append(issues, "percentile-outside-min-max")
			}
			if q < prev-1e-9 {
				issues = append(issues, "percentiles-decrease")
			}
			prev = q
		}
	case "field":
		got := map[string]int{}
		for _, r := range rows {
			k, _ := r.Key.(string)
			got[k] += int(r.Value)
		}
		if fmt.Sprint(got) != fmt.Sprint(keys) && !(len(got) == 0 && len(keys) == 0) {
			issues = append(issues, "field-key-counts-wrong")
		}
	case "type":
		got := map[string]int{}
		total := 0
		for _, r := range rows {
			k, _ := r.Key.(string)
			got[k] += int(r.Value)
			total += int(r.Value)
		}
		nNum, nStr := 0, 0
		for _, i := range ms {
			switch c19Vals[i].V.(type) {
			case float64:
				nNum++
			case string:
				nStr++
			}
		}
		if got["NUMERIC"] != nNum || got["STRING"] != nStr {
			issues = append(issues, "numeric-or-string-type-count-wrong")
		}
		if total != nRows {
			issues = append(issues, "type-counts-do-not-sum-to-the-number-of-rows")
		}
	}
	// dedupe
	seen := map[string]bool{}
	var o []string
	for _, i := range issues {
		if !seen[i] {
			seen[i] = true
			o = append(o, i)
		}
	}
	return o
}

// Item runs one multiset in both scan orders: an aggregation summarises a multiset of rows, so the order in
// which the store happens to return them (here: the id order) must not matter, and a defect that depends on
// which row comes first (a loop that stops at the first odd value, say) needs the odd value first.
func (w *c19Worker) Item(idx int, emit func(vf.Violation), st sweep.Stats, sample func(string)) {
	w.item(idx, false, false, emit, st, sample)
	if len(w.multisets[idx]) >= 2 {
		w.item(idx, true, false, emit, st, sample)
	}
	// "for any traversal feeding aggregate()": the same rows arriving through a mark/jump construct (whose
	// jump condition never holds, so every row passes once) bring the loop's signal travelers with them
	w.item(idx, false, true, emit, st, sample)
	// ... and rows whose summarised element is not the current one: the values sit on edges, each edge is
	// marked, the traversal moves on to the far vertex and aggregates over the mark ($e.f). Nothing but the
	// aggregation reads the marked step, so whether its properties are loaded is the planner's decision.
	w.viaEdge = true
	w.item(idx, false, false, emit, st, sample)
	w.viaEdge = false
}

func (w *c19Worker) item(idx int, reversed, viaLoop bool, emit func(vf.Violation), st sweep.Stats, sample func(string)) {
	viaEdge := w.viaEdge
	aggSet := w.aggs
	if viaEdge {
		if w.aggsE == nil {
			w.aggsE = c19AggsOn("$e.f", "$e._data")
		}
		aggSet = w.aggsE
	}
	ms := w.multisets[idx]
	if reversed {
		ms = append([]int{}, ms...)
		for i, j := 0, len(ms)-1; i < j; i, j = i+1, j-1 {
			ms[i], ms[j] = ms[j], ms[i]
		}
	}
	kv := memkv.New()
	db := kvgraph.NewKVGraph(kv)
	db.AddGraph("g")
	gi, _ := db.Graph("g")
	for n, vi := range ms {
		d := map[string]any{}
		if !c19Vals[vi].Missing {
			d["f"] = c19Vals[vi].V
		}
		if viaEdge {
			gi.AddVertex([]*gdbi.Vertex{{ID: fmt.Sprintf("s%d", n), Label: "S", Data: map[string]any{}, Loaded: true}, {ID: fmt.Sprintf("t%d", n), Label: "T", Data: map[string]any{}, Loaded: true}})
			gi.AddEdge([]*gdbi.Edge{{ID: fmt.Sprintf("e%d", n), From: fmt.Sprintf("s%d", n), To: fmt.Sprintf("t%d", n), Label: "x", Data: d, Loaded: true}})
			continue
		}
		gi.AddVertex([]*gdbi.Vertex{{ID: fmt.Sprintf("v%d", n), Label: "L", Data: d, Loaded: true}})
	}
	// the rows the aggregation is given: V() itself must return the vertices
	baseQ := gripql.V()
	if viaEdge {
		baseQ = gripql.E().As("e").Out()
	}
	base := qrun.Run(gi.Compiler(), baseQ.Statements, 20*time.Second)
	if len(base.Rows) != len(ms) {
		emit(vf.Violation{Sig: "fixture|V()-does-not-return-the-stored-vertices", Detail: w.Describe(idx), Replay: w.Describe(idx)})
		return
	}
	single := map[int]string{}
	for _, combo := range w.combos {
		var aggs []*gripql.Aggregate
		var names []string
		for _, i := range combo {
			aggs = append(aggs, aggSet[i].A)
			names = append(names, aggSet[i].Name)
		}
		q := gripql.V().Aggregate(aggs)
		if viaEdge {
			q = gripql.E().As("e").Out().Aggregate(aggs)
		}
		if viaLoop {
			q = gripql.V()
			q.Statements = append(q.Statements,
				&gripql.GraphStatement{Statement: &gripql.GraphStatement_Mark{Mark: "a"}},
				&gripql.GraphStatement{Statement: &gripql.GraphStatement_Jump{Jump: &gripql.Jump{Mark: "a", Expression: gripql.Eq("_label", "no-such-label"), Emit: true}}})
			q = q.Aggregate(aggs)
		}
		res := qrun.Run(gi.Compiler(), q.Statements, 20*time.Second)
		st["runs"]++
		desc := fmt.Sprintf("V().aggregate(%s) over %s", strings.Join(names, ","), w.Describe(idx))
		if reversed {
			desc += " stored in reverse order"
		}
		if viaLoop {
			desc = "V().mark(a).jump(a, never).aggregate(" + strings.Join(names, ",") + ") over " + w.Describe(idx)
		}
		if viaEdge {
			desc = "E().as(e).out().aggregate(" + strings.Join(names, ",") + " over $e) with the values on the edges: " + w.Describe(idx)
		}
		if res.CompileErr != nil {
			emit(vf.Violation{Sig: "rejected|" + strings.Join(names, "+"), Detail: desc + ": " + res.CompileErr.Error(), Replay: desc})
			continue
		}
		if res.TimedOut {
			st["undecided_timeouts"]++
			continue
		}
		if len(res.Rows) > 0 {
			st["runs_with_rows"]++
		}
		by := parseAggRows(res.Rows)
		for _, i := range combo {
			a := w.aggs[i]
			rows := by[a.Name]
			render := canonAgg
			if a.Kind == "term" && a.Size > 0 {
				render = canonCounts
			}
			if len(combo) == 1 {
				single[i] = render(rows)
				for _, issue := range c19Check(a, ms, rows) {
					tag := issue
					if k := strings.Index(tag, "("); k > 0 {
						tag = tag[:k]
					}
					emit(vf.Violation{Sig: fmt.Sprintf("%s|%s|%s", a.Name, valFlags(ms), tag),
						Detail: fmt.Sprintf("%s: %s; returned %s", desc, issue, canonAgg(rows)), Replay: map[string]any{"values": w.Describe(idx), "aggregation": a.Name}})
				}
			} else if s, ok := single[i]; ok && a.Kind != "percentile" && render(rows) != s {
				emit(vf.Violation{Sig: fmt.Sprintf("independence|%s|with=%s", a.Kind, w.aggs[combo[0]+combo[1]-i].Kind),
					Detail: fmt.Sprintf("%s: result of %s is %s but %s when requested alone", desc, a.Name, canonAgg(rows), s), Replay: map[string]any{"values": w.Describe(idx), "aggregations": names}})
			} else if ok && a.Kind == "percentile" && canonAgg(rows) != s {
				emit(vf.Violation{Sig: fmt.Sprintf("independence|%s|with=%s", a.Kind, w.aggs[combo[0]+combo[1]-i].Kind),
					Detail: fmt.Sprintf("%s: result of %s is %s but %s when requested alone", desc, a.Name, canonAgg(rows), s), Replay: map[string]any{"values": w.Describe(idx), "aggregations": names}})
			}
		}
	}
	if idx%97 == 0 {
		sample("V().aggregate(...) over " + w.Describe(idx))
	}
}

// C19 runs the check.
func C19(tier string, args []string) int {
	w := newC19Worker(tier)
	if sweep.IsWorker(args) {
		return sweep.RunWorker(w, args)
	}
	run := vf.NewRun("C19", tier, "exploration")
	budget := 8 * time.Minute
	if tier == "thorough" {
		budget = 30 * time.Minute
	}
	res := sweep.Run(run, "C19", tier, w, time.Now().Add(budget), 120*time.Second, func(idx int, stderr string, hang bool) {
		if hang {
			run.Report(vf.Violation{Sig: "hang|" + valFlags(w.multisets[idx]), Detail: "aggregation over " + w.Describe(idx) + " did not finish", Replay: w.Describe(idx)})
			return
		}
		site := sweep.PanicSite(stderr)
		run.Report(vf.Violation{Sig: "crash|" + valFlags(w.multisets[idx]) + "|" + site, Detail: fmt.Sprintf("the process died while aggregating over %s: %s", w.Describe(idx), site), Replay: w.Describe(idx)})
	})
	run.Coverage["evaluations"] = res.Stats["runs"]
	run.Coverage["multisets"] = len(w.multisets)
	run.Coverage["aggregation_instances"] = len(w.aggs)
	run.Coverage["combinations_per_multiset"] = len(w.combos)
	run.Coverage["distinct_nontrivial"] = res.Stats["runs_with_rows"]
	run.Coverage["undecided_timeouts"] = res.Stats["undecided_timeouts"]
	run.Coverage["worker_crashes"] = res.Crashes
	run.Coverage["exhaustive"] = !res.DeadlineHit && res.Done >= w.N()
	run.Coverage["rule"] = "every multiset up to the size bound over 10 field values, stored in both scan orders and also fed through a mark/jump construct, x (10 aggregation instances alone + all 45 pairs in one step); non-trivial = run that returned at least one aggregation row"
	s := res.Samples
	if len(s) == 0 {
		s = []string{"V().aggregate(term) over " + w.Describe(len(w.multisets)/2)}
	}
	run.Coverage["samples"] = s
	run.Assume = []string{
		"oracle = direct computation over the stored values, only as far as the property states it: percentiles are checked for monotonicity and range only (and only when a numeric value exists); type counts only for NUMERIC and STRING and their total",
		"scalar = number, string or boolean; missing, null, lists and maps have no term bucket; 'numeric values' are JSON numbers",
		"histogram results may contain empty buckets; every returned bucket must be aligned, correctly counted, and the counts must sum to the number of numeric values",
	}
	return run.Finish()
}
