//go:build vsched

package checks

// C11, scheduler part: a job that a client has seen COMPLETE must survive a
// restart (and a deleted one must not come back) under every interleaving of
// the spooling goroutine, the serializer pool and the client. File-system calls
// of jobstorage/storage.go are scheduling points (tools/instr -io), so "the
// server stops between any two file operations of the spooler" is part of the
// explored space: a restart is NewFSJobStorage on the same directory while the
// old instance's goroutines are wherever the schedule left them.

import (
	"context"
	"fmt"
	"os"
	"time"

	"github.com/bmeg/grip/gdbi"
	"github.com/bmeg/grip/gripql"
	"github.com/bmeg/grip/jobstorage"
	vs "github.com/bmeg/grip/verifsched"

	"verif/harness/vf"
)

func init() { Registry["C11"] = C11sched }

func c11Feed(n int) chan gdbi.Traveler {
	in := vs.NewChan(make(chan gdbi.Traveler, 2))
	vs.Go(func() {
		for i := 0; i < n; i++ {
			vs.PreSend(in, "harness:job-in")
			in <- trav(i)
		}
		vs.PreClose(in, "harness:job-close")
		close(in)
	})
	return in
}

// c11Await polls the job's status the way a client does. The value read decides
// the client's next operation (sleep or go on), so it is reflected in its causal hash.
func c11Await(fs *jobstorage.FSResults, id string) *gripql.JobStatus {
	for {
		st, err := fs.Status("g", id)
		if err != nil {
			return nil
		}
		if st.State == gripql.JobState_COMPLETE || st.State == gripql.JobState_ERROR {
			return st
		}
		vs.Sleep(time.Millisecond, "harness:poll")
	}
}

func c11Rows(fs *jobstorage.FSResults, id string) string {
	s, err := fs.Stream(context.Background(), "g", id)
	if err != nil {
		return "stream-error"
	}
	n := 0
	vs.PreRecv(s.Pipe, "harness:job-out")
	for range s.Pipe {
		n++
		vs.PreRecv(s.Pipe, "harness:job-out")
	}
	return fmt.Sprintf("rows=%d", n)
}

func c11SchedScenarios(tier string) []schedScenario {
	thorough := tier == "thorough"
	bound := 2
	budget := 150 * time.Second
	if thorough {
		bound = 3
		budget = 20 * time.Minute
	}
	small := func(n int, site string) int {
		if n >= 10 {
			return 2
		}
		return n
	}
	q := gripql.V().Out().Statements
	stream := func(n int) *jobstorage.Stream {
		return &jobstorage.Stream{Pipe: c11Feed(n), DataType: gdbi.VertexData, MarkTypes: map[string]gdbi.DataType{}, Query: q}
	}
	tmp := func() string {
		// scratch only, removed at the end of every execution; memory-backed when available
		base := harnessWorkDir()
		if st, err := os.Stat("/dev/shm"); err == nil && st.IsDir() {
			base = "/dev/shm"
		}
		d, _ := os.MkdirTemp(base, "verif-c11s-")
		return d
	}
	var out []schedScenario
	maxN := 1
	if thorough {
		maxN = 2
	}
	for n := 0; n <= maxN; n++ {
		n := n
		out = append(out, schedScenario{Name: fmt.Sprintf("spool-complete-restart/N=%d/bound=%d", n, bound), Class: "restart-after-complete", Ordered: true,
			Want:  []string{"complete count=" + fmt.Sprint(n), "restart COMPLETE count=" + fmt.Sprint(n)},
			Bound: bound, CapMap: small, Budget: budget,
			Body: func() {
				dir := tmp()
				defer os.RemoveAll(dir)
				fs := jobstorage.NewFSJobStorage(dir)
				id, err := fs.Spool("g", stream(n))
				if err != nil {
					vs.Obs("spool-error")
					return
				}
				st := c11Await(fs, id)
				if st == nil {
					vs.Obs("lost-before-restart")
					return
				}
				vs.Obs(fmt.Sprintf("complete count=%d", st.Count))
				fs2 := jobstorage.NewFSJobStorage(dir) // the server restarts
				st2, err := fs2.Status("g", id)
				if err != nil {
					vs.Obs("restart: job not found")
					return
				}
				vs.Obs(fmt.Sprintf("restart %s count=%d", st2.State, st2.Count))
			}})
		out = append(out, schedScenario{Name: fmt.Sprintf("spool-complete-restart-read/N=%d/bound=1", n), Class: "read-after-restart", Ordered: true,
			Want:  []string{"complete", fmt.Sprintf("rows=%d", n)},
			Bound: 1, CapMap: small, Budget: budget,
			Body: func() {
				dir := tmp()
				defer os.RemoveAll(dir)
				fs := jobstorage.NewFSJobStorage(dir)
				id, _ := fs.Spool("g", stream(n))
				if c11Await(fs, id) == nil {
					vs.Obs("lost-before-restart")
					return
				}
				vs.Obs("complete")
				vs.Obs(c11Rows(jobstorage.NewFSJobStorage(dir), id))
			}})
		out = append(out, schedScenario{Name: fmt.Sprintf("spool-complete-read/N=%d/bound=1", n), Class: "read-after-complete", Ordered: true,
			Want:  []string{"complete count=" + fmt.Sprint(n), fmt.Sprintf("rows=%d", n)},
			Bound: 1, CapMap: small, Budget: budget,
			Body: func() {
				dir := tmp()
				defer os.RemoveAll(dir)
				fs := jobstorage.NewFSJobStorage(dir)
				id, _ := fs.Spool("g", stream(n))
				st := c11Await(fs, id)
				if st == nil {
					vs.Obs("lost")
					return
				}
				vs.Obs(fmt.Sprintf("complete count=%d", st.Count))
				vs.Obs(c11Rows(fs, id))
			}})
		out = append(out, schedScenario{Name: fmt.Sprintf("spool-complete-delete-restart/N=%d/bound=%d", n, bound), Class: "restart-after-delete", Ordered: true,
			Want:  []string{"complete", "deleted", "restart: job not found"},
			Bound: bound, CapMap: small, Budget: budget,
			Body: func() {
				dir := tmp()
				defer os.RemoveAll(dir)
				fs := jobstorage.NewFSJobStorage(dir)
				id, _ := fs.Spool("g", stream(n))
				if c11Await(fs, id) == nil {
					vs.Obs("lost-before-delete")
					return
				}
				vs.Obs("complete")
				if err := fs.Delete("g", id); err != nil {
					vs.Obs("delete-error " + err.Error())
					return
				}
				vs.Obs("deleted")
				fs2 := jobstorage.NewFSJobStorage(dir)
				if st2, err := fs2.Status("g", id); err == nil {
					vs.Obs("restart: deleted job is back, " + st2.State.String())
					return
				}
				vs.Obs("restart: job not found")
			}})
	}
	if !thorough {
		return out
	}
	// two jobs spooled concurrently on one graph, restart once both are complete (14 goroutines: thorough only;
	// the unscheduled history part covers Submit;Submit;Restart in both tiers)
	out = append(out, schedScenario{Name: fmt.Sprintf("two-spools-restart/N=1/bound=%d", bound), Class: "restart-two-jobs", Ordered: true,
		Want:  []string{"both complete", "restart COMPLETE/1 COMPLETE/1"},
		Bound: bound, CapMap: small, Budget: budget,
		Body: func() {
			dir := tmp()
			defer os.RemoveAll(dir)
			fs := jobstorage.NewFSJobStorage(dir)
			a, _ := fs.Spool("g", stream(1))
			b, _ := fs.Spool("g", stream(1))
			if a == b {
				vs.Obs("two jobs share the id " + a)
				return
			}
			if c11Await(fs, a) == nil || c11Await(fs, b) == nil {
				vs.Obs("lost-before-restart")
				return
			}
			vs.Obs("both complete")
			fs2 := jobstorage.NewFSJobStorage(dir)
			d := func(id string) string {
				st, err := fs2.Status("g", id)
				if err != nil {
					return "missing"
				}
				return fmt.Sprintf("%s/%d", st.State, st.Count)
			}
			vs.Obs("restart " + d(a) + " " + d(b))
		}})
	return out
}

// C11sched is C11 in the scheduler build: the history/program part runs first on
// the (instrumented, unscheduled) code, then the interleaving scenarios.
func C11sched(tier string, args []string) int {
	w := &schedWorker{prop: "C11", scenarios: c11SchedScenarios(tier)}
	return runSchedWith("C11", tier, args, w,
		"S: completion/restart/delete scenarios on the real FSJobStorage (spooler goroutine + 4 serializer workers + client) with file-system calls as scheduling points, preemption-bounded with state cache: a job seen COMPLETE must be COMPLETE with the same count and rows after NewFSJobStorage on the same directory, a deleted job must stay gone, two concurrent jobs must both survive",
		[]string{
			"file-system calls in jobstorage/storage.go are scheduling points; the restart is taken at the client's next step after it observed COMPLETE, which under the explorer is every point of the spooler's remaining work",
			"List and Search use unbuffered channels, which the scheduler does not model; the scheduled scenarios observe through Status and Stream, listing and searching are covered by the unscheduled history part",
		},
		func(run *vf.Run) (int, []string) {
			c11Body(run, tier)
			n, _ := run.Coverage["evaluations"].(int)
			return n, nil
		})
}
