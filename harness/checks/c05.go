package checks

// C05: every exposed RPC is mediated by authentication and per-graph authorization.
//
// Exhaustive finite product: every method of the four generated service
// descriptors x transport {real grpc.Server with the interceptor chain Serve()
// builds, on an in-memory listener; generated *DirectClient shims with the same
// interceptors (the HTTP gateway path)} x credentials x graph x policy. The
// handler is a stub; "the handler ran" is observed, and compared with a
// reference policy evaluator. The method's operation class and the graph named
// in the request come from an independent rule in this file, not from
// accounts.MethodMap (which is the thing under test).

import (
	"context"
	"encoding/base64"
	"fmt"
	"io"
	"net"
	"os"
	"path/filepath"
	"reflect"
	"sort"
	"strings"
	"sync"
	"time"

	"github.com/bmeg/grip/accounts"
	"github.com/bmeg/grip/gripql"
	grpc_middleware "github.com/grpc-ecosystem/go-grpc-middleware"
	"google.golang.org/grpc"
	"google.golang.org/grpc/codes"
	"google.golang.org/grpc/credentials/insecure"
	"google.golang.org/grpc/metadata"
	"google.golang.org/grpc/status"
	"google.golang.org/grpc/test/bufconn"

	"verif/harness/vf"
)

type c05Stub struct {
	gripql.UnimplementedQueryServer
	gripql.UnimplementedJobServer
	gripql.UnimplementedEditServer
	gripql.UnimplementedConfigureServer
	mu   sync.Mutex
	bulk []string // graphs of the elements the BulkAdd handler received
	ran  int
}

func (s *c05Stub) BulkAdd(stream gripql.Edit_BulkAddServer) error {
	s.mu.Lock()
	s.ran++
	s.bulk = nil
	s.mu.Unlock()
	for {
		e, err := stream.Recv()
		if err == io.EOF {
			break
		}
		if err != nil {
			return err
		}
		s.mu.Lock()
		s.bulk = append(s.bulk, e.Graph)
		s.mu.Unlock()
	}
	return stream.SendAndClose(&gripql.BulkEditResult{})
}

type c05Method struct {
	Service      string
	Name         string
	Full         string
	ServerStream bool
	ClientStream bool
}

func c05Methods() []c05Method {
	var out []c05Method
	for _, sd := range []*grpc.ServiceDesc{&gripql.Query_ServiceDesc, &gripql.Job_ServiceDesc, &gripql.Edit_ServiceDesc, &gripql.Configure_ServiceDesc} {
		svc := strings.TrimPrefix(sd.ServiceName, "gripql.")
		for _, m := range sd.Methods {
			out = append(out, c05Method{Service: svc, Name: m.MethodName, Full: "/" + sd.ServiceName + "/" + m.MethodName})
		}
		for _, m := range sd.Streams {
			out = append(out, c05Method{Service: svc, Name: m.StreamName, Full: "/" + sd.ServiceName + "/" + m.StreamName, ServerStream: m.ServerStreams, ClientStream: m.ClientStreams})
		}
	}
	return out
}

// opClass is the independent rule for a method's operation class.
func c05OpClass(m c05Method) string {
	switch m.Service {
	case "Query":
		if m.Name == "Traversal" {
			return "query"
		}
		return "read"
	case "Edit":
		return "write"
	case "Job":
		switch m.Name {
		case "Submit", "ResumeJob":
			return "exec"
		case "DeleteJob":
			return "write"
		}
		return "read"
	case "Configure":
		return "admin"
	}
	return "?"
}

type c05Policy struct {
	Name  string
	Rules [][3]string // sub, obj, act
	None  bool        // no accounts configured at all
}

func (p c05Policy) grants(user, graph, act string) bool {
	if p.None {
		return true
	}
	if user == "root" {
		return true
	}
	for _, r := range p.Rules {
		if r[0] == user && (r[1] == graph || r[1] == "*") && (r[2] == act || r[2] == "*") {
			return true
		}
	}
	return false
}

func c05Policies() []c05Policy {
	ps := []c05Policy{
		{Name: "no-accounts", None: true},
		{Name: "allow-all", Rules: [][3]string{{"u1", "*", "*"}, {"u2", "*", "*"}}},
		{Name: "deny-all"},
		{Name: "u1-any-graph-read", Rules: [][3]string{{"u1", "*", "read"}}},
		{Name: "u1-g1-any-act", Rules: [][3]string{{"u1", "g1", "*"}}},
	}
	for _, c := range []string{"read", "query", "write", "exec", "admin"} {
		ps = append(ps, c05Policy{Name: "u1-g1-" + c, Rules: [][3]string{{"u1", "g1", c}}})
	}
	return ps
}

const c05Model = `[request_definition]
r = sub, obj, act

[policy_definition]
p = sub, obj, act

[policy_effect]
e = some(where (p.eft == allow))

[matchers]
m = r.sub == p.sub && (r.obj == p.obj || p.obj ==  "*") && (r.act == p.act || p.act == "*") || r.sub == "root"
`

type c05Cred struct {
	Name  string
	User  string // "" = not authenticated
	Basic string // header value ("" = none)
}

func basic(u, p string) string {
	return "Basic " + base64.StdEncoding.EncodeToString([]byte(u+":"+p))
}

type c05Env struct {
	policy  c05Policy
	stub    *c05Stub
	grpcSrv *grpc.Server
	conn    *grpc.ClientConn
	clients map[string]map[string]reflect.Value // transport -> service -> client object
}

func c05Setup(p c05Policy, dir string) (*c05Env, error) {
	env := &c05Env{policy: p, stub: &c05Stub{}, clients: map[string]map[string]reflect.Value{"grpc": {}, "direct": {}}}
	conf := accounts.Config{}
	if !p.None {
		mf := filepath.Join(dir, p.Name+".model.conf")
		pf := filepath.Join(dir, p.Name+".policy.csv")
		os.WriteFile(mf, []byte(c05Model), 0o644)
		var sb strings.Builder
		for _, r := range p.Rules {
			fmt.Fprintf(&sb, "p, %s, %s, %s\n", r[0], r[1], r[2])
		}
		os.WriteFile(pf, []byte(sb.String()), 0o644)
		conf = accounts.Config{
			Auth:   &accounts.AuthConfig{Basic: &accounts.BasicAuth{{User: "u1", Password: "pw1"}, {User: "u2", Password: "pw2"}}},
			Access: &accounts.AccessConfig{Casbin: &accounts.CasbinAccess{Model: mf, Policy: pf}},
		}
	}
	unaryInt := conf.UnaryInterceptor()
	streamInt := conf.StreamInterceptor()
	// the chain exactly as server.Serve builds it (the logging interceptors are pass-through and private to package server)
	env.grpcSrv = grpc.NewServer(
		grpc.UnaryInterceptor(grpc_middleware.ChainUnaryServer(unaryInt)),
		grpc.StreamInterceptor(grpc_middleware.ChainStreamServer(streamInt)),
	)
	gripql.RegisterQueryServer(env.grpcSrv, env.stub)
	gripql.RegisterJobServer(env.grpcSrv, env.stub)
	gripql.RegisterEditServer(env.grpcSrv, env.stub)
	gripql.RegisterConfigureServer(env.grpcSrv, env.stub)
	lis := bufconn.Listen(1 << 20)
	go env.grpcSrv.Serve(lis)
	conn, err := grpc.Dial("bufnet", grpc.WithContextDialer(func(ctx context.Context, s string) (net.Conn, error) { return lis.Dial() }),
		grpc.WithTransportCredentials(insecure.NewCredentials()))
	if err != nil {
		return nil, err
	}
	env.conn = conn
	env.clients["grpc"]["Query"] = reflect.ValueOf(gripql.NewQueryClient(conn))
	env.clients["grpc"]["Job"] = reflect.ValueOf(gripql.NewJobClient(conn))
	env.clients["grpc"]["Edit"] = reflect.ValueOf(gripql.NewEditClient(conn))
	env.clients["grpc"]["Configure"] = reflect.ValueOf(gripql.NewConfigureClient(conn))
	du, ds := gripql.DirectUnaryInterceptor(unaryInt), gripql.DirectStreamInterceptor(streamInt)
	env.clients["direct"]["Query"] = reflect.ValueOf(gripql.NewQueryDirectClient(env.stub, du, ds))
	env.clients["direct"]["Job"] = reflect.ValueOf(gripql.NewJobDirectClient(env.stub, du, ds))
	env.clients["direct"]["Edit"] = reflect.ValueOf(gripql.NewEditDirectClient(env.stub, du, ds))
	env.clients["direct"]["Configure"] = reflect.ValueOf(gripql.NewConfigureDirectClient(env.stub, du, ds))
	return env, nil
}

func (e *c05Env) close() {
	e.conn.Close()
	e.grpcSrv.Stop()
}

// invoke calls one method; returns whether the handler ran, the status code and the graph named in the request.
func (e *c05Env) invoke(transport string, m c05Method, cred c05Cred, graph string, bulkGraphs []string) (ran bool, code codes.Code, reqGraph string, bulkSeen []string, problem string) {
	defer func() {
		if r := recover(); r != nil {
			problem = fmt.Sprint("panic: ", r)
		}
	}()
	cl := e.clients[transport][m.Service]
	meth := cl.MethodByName(m.Name)
	if !meth.IsValid() {
		return false, 0, "", nil, "client has no method " + m.Name
	}
	ctx, cancel := context.WithTimeout(context.Background(), 10*time.Second)
	defer cancel()
	if cred.Basic != "" {
		ctx = metadata.AppendToOutgoingContext(ctx, "authorization", cred.Basic)
	}
	reqGraph = "*"
	var err error
	if m.ClientStream {
		e.stub.mu.Lock()
		before := e.stub.ran
		e.stub.bulk = nil
		e.stub.mu.Unlock()
		done := make(chan error, 1)
		go func() {
			defer func() {
				if r := recover(); r != nil {
					done <- fmt.Errorf("panic: %v", r)
				}
			}()
			out := meth.Call([]reflect.Value{reflect.ValueOf(ctx)})
			if !out[1].IsNil() {
				done <- out[1].Interface().(error)
				return
			}
			st := out[0]
			for _, g := range bulkGraphs {
				st.MethodByName("Send").Call([]reflect.Value{reflect.ValueOf(&gripql.GraphElement{Graph: g, Vertex: &gripql.Vertex{Gid: "v", Label: "L"}})})
			}
			if transport == "direct" {
				// the generated shim's CloseAndRecv does not close the element channel
				st.MethodByName("CloseSend").Call(nil)
			}
			r := st.MethodByName("CloseAndRecv").Call(nil)
			if !r[1].IsNil() {
				done <- r[1].Interface().(error)
				return
			}
			done <- nil
		}()
		// a denied call through the direct shim never answers (the interceptor's error is dropped by
		// the generated code); what matters here is whether the handler ran
		wait := 10 * time.Second
		if cred.User == "" && !e.policy.None {
			wait = 300 * time.Millisecond
		}
		select {
		case err = <-done:
		case <-time.After(wait):
			err = status.Error(codes.DeadlineExceeded, "no answer")
		}
		reqGraph = "<per-element>"
		e.stub.mu.Lock()
		bulkSeen = append([]string{}, e.stub.bulk...)
		ranNow := e.stub.ran != before
		e.stub.mu.Unlock()
		st, _ := status.FromError(err)
		return ranNow, st.Code(), reqGraph, bulkSeen, ""
	} else {
		reqT := meth.Type().In(1)
		req := reflect.New(reqT.Elem())
		if f := req.Elem().FieldByName("Graph"); f.IsValid() && f.Kind() == reflect.String {
			f.SetString(graph)
			reqGraph = graph
		}
		out := meth.Call([]reflect.Value{reflect.ValueOf(ctx), req})
		if !out[1].IsNil() {
			err = out[1].Interface().(error)
		} else if m.ServerStream {
			r := out[0].MethodByName("Recv").Call(nil)
			if !r[1].IsNil() {
				err = r[1].Interface().(error)
			}
		}
	}
	if err == nil || err == io.EOF {
		return true, codes.OK, reqGraph, bulkSeen, ""
	}
	st, _ := status.FromError(err)
	code = st.Code()
	if code == codes.Unimplemented && strings.Contains(st.Message(), "not implemented") {
		return true, code, reqGraph, bulkSeen, "" // the stub handler (Unimplemented*Server) was reached
	}
	return false, code, reqGraph, bulkSeen, ""
}

// C05 runs the check.
func C05(tier string) int {
	run := vf.NewRun("C05", tier, "exploration")
	work := filepath.Join(vf.Root(), ".work", fmt.Sprintf("c05-%d", os.Getpid()))
	os.MkdirAll(work, 0o755)
	defer os.RemoveAll(work)
	// the accounts package chats on stdout; keep the protocol channel clean
	realStdout := os.Stdout
	devnull, _ := os.OpenFile(os.DevNull, os.O_WRONLY, 0)
	os.Stdout = devnull
	defer func() { os.Stdout = realStdout }()

	methods := c05Methods()
	creds := []c05Cred{
		{Name: "none"},
		{Name: "wrong-password", Basic: basic("u1", "nope")},
		{Name: "known-user-empty-password", Basic: basic("u1", "")},
		{Name: "unknown-user-empty-password", Basic: basic("root", "")}, // "root" is what the sample casbin model treats as administrator
		{Name: "unknown-user-with-password", Basic: basic("ghost", "pw1")},
		{Name: "u1", User: "u1", Basic: basic("u1", "pw1")},
		{Name: "u2", User: "u2", Basic: basic("u2", "pw2")},
	}
	graphs := []string{"g1", "g2"}
	// every element stream of length <= 3 over the two graphs (15 streams, shortest first): a filter that
	// carries a verdict from one element to the next needs a particular order, e.g. allowed, denied, denied
	bulkStreams := [][]string{{}}
	for l, prev := 1, [][]string{{}}; l <= 3; l++ {
		var cur [][]string
		for _, p := range prev {
			for _, g := range []string{"g1", "g2"} {
				cur = append(cur, append(append([]string{}, p...), g))
			}
		}
		bulkStreams = append(bulkStreams, cur...)
		prev = cur
	}
	cases := 0
	distinct := map[string]bool{}
	var samples []string
	for _, pol := range c05Policies() {
		env, err := c05Setup(pol, work)
		if err != nil {
			os.Stdout = realStdout
			fmt.Fprintln(os.Stderr, "C05: setup failed:", err)
			return 2
		}
		for _, transport := range []string{"grpc", "direct"} {
			for _, m := range methods {
				class := c05OpClass(m)
				for _, cred := range creds {
					if m.ClientStream {
						for bi, bs := range bulkStreams {
							if bi >= 2 && transport == "direct" && cred.User == "" && !pol.None {
								continue // a refused call through the direct shim never answers (known finding): two streams are enough to see that the handler stays untouched
							}
							ran, code, _, seen, prob := env.invoke(transport, m, cred, "", bs)
							cases++
							authed := pol.None || cred.User != ""
							var want []string
							for _, g := range bs {
								if pol.grants(cred.User, g, class) {
									want = append(want, g)
								}
							}
							rep := map[string]any{"method": m.Full, "transport": transport, "policy": pol.Name, "credentials": cred.Name, "elements": bs}
							distinct[fmt.Sprintf("%s|%s|%v|%d", m.Full, transport, authed, len(want))] = true
							switch {
							case prob != "":
								run.Report(vf.Violation{Sig: fmt.Sprintf("%s|%s|problem", m.Full, transport), Detail: fmt.Sprintf("policy %s creds %s elements %v: %s", pol.Name, cred.Name, bs, prob), Replay: rep})
							case !authed && ran:
								run.Report(vf.Violation{Sig: fmt.Sprintf("%s|%s|unauthenticated-caller-reached-handler", m.Full, transport), Detail: fmt.Sprintf("policy %s creds %s: bulk handler ran (code %v)", pol.Name, cred.Name, code), Replay: rep})
							case !authed && code == codes.DeadlineExceeded:
								run.Report(vf.Violation{Sig: fmt.Sprintf("%s|%s|denied-call-never-answers", m.Full, transport), Detail: fmt.Sprintf("policy %s creds %s: the refused bulk call never returns (the handler did not run, which is right, but the caller gets no authentication error)", pol.Name, cred.Name), Replay: rep})
							case authed && !ran:
								run.Report(vf.Violation{Sig: fmt.Sprintf("%s|%s|authenticated-caller-blocked", m.Full, transport), Detail: fmt.Sprintf("policy %s creds %s elements %v: bulk handler did not run (code %v)", pol.Name, cred.Name, bs, code), Replay: rep})
							case authed && strings.Join(seen, ",") != strings.Join(want, ","):
								run.Report(vf.Violation{Sig: fmt.Sprintf("%s|%s|element-filter-wrong", m.Full, transport), Detail: fmt.Sprintf("policy %s creds %s elements for %v: handler received %v, policy permits %v", pol.Name, cred.Name, bs, seen, want), Replay: rep})
							}
						}
						continue
					}
					for _, g := range graphs {
						ran, code, reqGraph, _, prob := env.invoke(transport, m, cred, g, nil)
						cases++
						authed := pol.None || cred.User != ""
						granted := authed && pol.grants(cred.User, reqGraph, class)
						rep := map[string]any{"method": m.Full, "transport": transport, "policy": pol.Name, "credentials": cred.Name, "graph": reqGraph, "class": class}
						distinct[fmt.Sprintf("%s|%s|%v|%v", m.Full, transport, authed, granted)] = true
						if len(samples) < 6 && cases%911 == 0 {
							samples = append(samples, fmt.Sprintf("%s via %s, policy %s, creds %s, graph %s (class %s): granted=%v ran=%v code=%v", m.Full, transport, pol.Name, cred.Name, reqGraph, class, granted, ran, code))
						}
						switch {
						case prob != "":
							run.Report(vf.Violation{Sig: fmt.Sprintf("%s|%s|problem", m.Full, transport), Detail: fmt.Sprintf("policy %s creds %s graph %s: %s", pol.Name, cred.Name, g, prob), Replay: rep})
						case ran && !authed:
							run.Report(vf.Violation{Sig: fmt.Sprintf("%s|%s|unauthenticated-caller-reached-handler", m.Full, transport), Detail: fmt.Sprintf("policy %s creds %s graph %s: handler ran", pol.Name, cred.Name, reqGraph), Replay: rep})
						case ran && !granted:
							run.Report(vf.Violation{Sig: fmt.Sprintf("%s|%s|handler-ran-without-grant", m.Full, transport), Detail: fmt.Sprintf("policy %s gives %s no %q on %s, yet the handler ran", pol.Name, cred.Name, class, reqGraph), Replay: rep})
						case !ran && granted && pol.None:
							run.Report(vf.Violation{Sig: fmt.Sprintf("%s|%s|uncallable-without-accounts", m.Full, transport), Detail: fmt.Sprintf("no accounts configured, yet the call fails with %v", code), Replay: rep})
						case !ran && granted:
							run.Report(vf.Violation{Sig: fmt.Sprintf("%s|%s|granted-but-blocked", m.Full, transport), Detail: fmt.Sprintf("policy %s grants %s %q on %s, yet the call fails with %v", pol.Name, cred.Name, class, reqGraph, code), Replay: rep})
						case !ran && code != codes.Unauthenticated && code != codes.PermissionDenied:
							run.Report(vf.Violation{Sig: fmt.Sprintf("%s|%s|denied-with-unexpected-status", m.Full, transport), Detail: fmt.Sprintf("policy %s creds %s graph %s: denied (correct) but with status %v instead of an authentication/permission error", pol.Name, cred.Name, reqGraph, code), Replay: rep})
						}
					}
				}
			}
		}
		env.close()
	}
	// part H: the same product over the HTTP gateway that the real server.Serve() sets up
	hc, hs := c05HTTP(run, work, c05Policies(), methods, creds)
	cases += hc
	samples = append(samples, hs...)
	os.Stdout = realStdout
	run.Coverage["evaluations"] = cases
	run.Coverage["methods"] = len(methods)
	var names []string
	for _, m := range methods {
		names = append(names, m.Full)
	}
	sort.Strings(names)
	run.Coverage["method_list"] = names
	run.Coverage["policies"] = len(c05Policies())
	run.Coverage["distinct_nontrivial"] = len(distinct)
	run.Coverage["rule"] = "full product: every method of the 4 service descriptors x {grpc interceptor chain on bufconn, direct (gateway) client} x {no credentials, wrong password, a known user with an empty password, unknown users (one named like the administrator of the sample model) with an empty or with another user password, u1, u2} x {g1,g2} x 10 policies; BulkAdd with 8 element streams per case; plus every method with an HTTP route x the same credentials, graphs and policies against the real server.Serve() on localhost ports; distinct = method x transport x authenticated x granted"
	run.Coverage["samples"] = samples
	run.Coverage["exhaustive"] = true
	run.Assume = []string{
		"operation class of a method and 'graph named in the request' come from the independent rule in c05.go (Query: Traversal=query else read; Edit=write; Job: Submit/ResumeJob=exec, DeleteJob=write, else read; Configure=admin; no Graph field => '*')",
		"policy semantics = the Casbin model shipped in test/model.conf, re-implemented in 10 lines as the reference evaluator; real Casbin enforcer and real BasicAuth are in the loop",
		"'handler ran' = the call reached the stub server (Unimplemented*Server message, or the recording BulkAdd stub)",
		"the request-logging interceptors of package server are pass-through and unexported; the chain is otherwise built as in Serve()",
		"part H starts the real GripServer (Serve) on two free localhost TCP ports per policy with plugins enabled (with plugins disabled Serve() deliberately registers a null Configure service without interceptors); HTTP routes are read from gripql/gripql.proto; denied = status 401 or 403; a denied call must leave the key-value store byte-identical",
	}
	return run.Finish()
}
