//go:build vsched

package checks

// C13: internal stream combinators preserve order and multiplicity - all
// interleavings of producer, combinator goroutines and consumer.

import (
	"encoding/json"
	"fmt"
	"math"
	"time"

	"github.com/bmeg/grip/engine/queue"
	"github.com/bmeg/grip/gdbi"
	"github.com/bmeg/grip/gripper"
	"github.com/bmeg/grip/jobstorage"
	vs "github.com/bmeg/grip/verifsched"
)

func init() { Registry["C13"] = C13 }

func trav(i int) gdbi.Traveler { return &gdbi.BaseTraveler{Count: uint32(i + 1)} }

func c13Scenarios(tier string) []schedScenario {
	thorough := tier == "thorough"
	var out []schedScenario
	small := func(n int, site string) int {
		switch {
		case n >= 1000:
			return 3
		case n >= 50:
			return 2
		case n >= 10:
			return 2
		}
		return n
	}
	seq := func(n int) []string {
		var s []string
		for i := 0; i < n; i++ {
			s = append(s, fmt.Sprint(i+1))
		}
		return s
	}
	// ---- jump queue
	maxN := 3
	if thorough {
		maxN = 4
	}
	for n := 0; n <= maxN; n++ {
		n := n
		for _, caps := range []string{"real", "scaled"} {
			var cm func(int, string) int
			if caps == "scaled" {
				cm = small
			}
			out = append(out, schedScenario{Name: fmt.Sprintf("queue.New/N=%d/caps=%s", n, caps), Class: "queue", Ordered: true, Want: seq(n), Bound: -1, CapMap: cm, Budget: 120 * time.Second,
				Body: func() {
					q := queue.New()
					vs.Go(func() {
						for i := 0; i < n; i++ {
							vs.PreSend(q.GetInput(), "harness:queue-in")
							q.GetInput() <- trav(i)
						}
						vs.PreClose(q.GetInput(), "harness:queue-close")
						close(q.GetInput())
					})
					vs.PreRecv(q.GetOutput(), "harness:queue-out")
					for t := range q.GetOutput() {
						vs.Obs(fmt.Sprint(t.GetCount()))
						vs.PreRecv(q.GetOutput(), "harness:queue-out")
					}
				}})
		}
	}
	// ---- serializer worker pools
	for _, nw := range []int{1, 2, 3, 4} {
		top := 2*nw + 1
		if !thorough && nw >= 4 {
			top = nw + 1
		}
		// (3 workers keep the full range in the quick tier too: a worker count that is not a power of two
		// with more items than one worker's scaled buffers hold is where index arithmetic goes wrong)
		for n := 0; n <= top; n++ {
			nw, n := nw, n
			out = append(out, schedScenario{Name: fmt.Sprintf("MarshalStream/workers=%d/N=%d", nw, n), Class: "marshal", Ordered: true, Want: seq(n), Bound: -1, CapMap: small, Budget: 120 * time.Second,
				Body: func() {
					in := vs.NewChan(make(chan gdbi.Traveler, 2))
					vs.Go(func() {
						for i := 0; i < n; i++ {
							vs.PreSend(in, "harness:marshal-in")
							in <- trav(i)
						}
						vs.PreClose(in, "harness:marshal-close")
						close(in)
					})
					o := jobstorage.MarshalStream(in, nw)
					vs.PreRecv(o, "harness:marshal-out")
					for b := range o {
						t := &gdbi.BaseTraveler{}
						json.Unmarshal(b, t)
						vs.Obs(fmt.Sprint(t.Count))
						vs.PreRecv(o, "harness:marshal-out")
					}
				}})
			out = append(out, schedScenario{Name: fmt.Sprintf("UnmarshalStream/workers=%d/N=%d", nw, n), Class: "unmarshal", Ordered: true, Want: seq(n), Bound: -1, CapMap: small, Budget: 120 * time.Second,
				Body: func() {
					in := vs.NewChan(make(chan []byte, 2))
					vs.Go(func() {
						for i := 0; i < n; i++ {
							b, _ := json.Marshal(trav(i))
							vs.PreSend(in, "harness:unmarshal-in")
							in <- b
						}
						vs.PreClose(in, "harness:unmarshal-close")
						close(in)
					})
					o := jobstorage.UnmarshalStream(in, nw)
					vs.PreRecv(o, "harness:unmarshal-out")
					for t := range o {
						vs.Obs(fmt.Sprint(t.GetCount()))
						vs.PreRecv(o, "harness:unmarshal-out")
					}
				}})
		}
	}
	// ---- serializer pools with one record that cannot be (de)serialised: it still occupies its slot (an
	// empty result), so every later record keeps its position - a worker that skips it runs a round ahead
	for _, nw := range []int{2, 3} {
		for _, bad := range []int{0, 1} {
			nw, bad := nw, bad
			n := 2*nw + 1
			want := seq(n)
			want[bad] = "0"
			out = append(out, schedScenario{Name: fmt.Sprintf("UnmarshalStream/workers=%d/N=%d/torn-line-at-%d", nw, n, bad), Class: "unmarshal-bad-record", Ordered: true, Want: want, Bound: -1, CapMap: small, Budget: 120 * time.Second,
				Body: func() {
					in := vs.NewChan(make(chan []byte, 2))
					vs.Go(func() {
						for i := 0; i < n; i++ {
							b, _ := json.Marshal(trav(i))
							if i == bad {
								b = b[:len(b)/2] // a torn line, as after a crash in the middle of a write
							}
							vs.PreSend(in, "harness:unmarshal-in")
							in <- b
						}
						vs.PreClose(in, "harness:unmarshal-close")
						close(in)
					})
					o := jobstorage.UnmarshalStream(in, nw)
					vs.PreRecv(o, "harness:unmarshal-out")
					for t := range o {
						vs.Obs(fmt.Sprint(t.GetCount()))
						vs.PreRecv(o, "harness:unmarshal-out")
					}
				}})
			out = append(out, schedScenario{Name: fmt.Sprintf("MarshalStream/workers=%d/N=%d/unserialisable-at-%d", nw, n, bad), Class: "marshal-bad-record", Ordered: true, Want: want, Bound: -1, CapMap: small, Budget: 120 * time.Second,
				Body: func() {
					in := vs.NewChan(make(chan gdbi.Traveler, 2))
					vs.Go(func() {
						for i := 0; i < n; i++ {
							var t gdbi.Traveler = trav(i)
							if i == bad {
								// encoding/json refuses NaN
								t = &gdbi.BaseTraveler{Count: uint32(i + 1), Current: &gdbi.DataElement{ID: "v", Label: "L", Data: map[string]interface{}{"x": math.NaN()}, Loaded: true}}
							}
							vs.PreSend(in, "harness:marshal-in")
							in <- t
						}
						vs.PreClose(in, "harness:marshal-close")
						close(in)
					})
					o := jobstorage.MarshalStream(in, nw)
					vs.PreRecv(o, "harness:marshal-out")
					for b := range o {
						t := &gdbi.BaseTraveler{}
						json.Unmarshal(b, t)
						vs.Obs(fmt.Sprint(t.Count))
						vs.PreRecv(o, "harness:marshal-out")
					}
				}})
		}
	}
	// ---- plugin channel multiplexer: every Put sequence of length <= 3 (4) over 2 identity pipelines
	maxPut := 3
	if thorough {
		maxPut = 4
	}
	var putSeqs [][]int
	var rec func(cur []int)
	rec = func(cur []int) {
		putSeqs = append(putSeqs, append([]int{}, cur...))
		if len(cur) == maxPut {
			return
		}
		for p := 0; p < 2; p++ {
			rec(append(cur, p))
		}
	}
	rec(nil)
	for _, ps := range putSeqs {
		ps := ps
		out = append(out, schedScenario{Name: fmt.Sprintf("ChannelMux/puts=%v", ps), Class: "mux", Ordered: true, Want: seq(len(ps)), Bound: -1, CapMap: small, Budget: 120 * time.Second,
			Body: func() {
				m := gripper.NewChannelMux()
				for p := 0; p < 2; p++ {
					in := vs.NewChan(make(chan interface{}, 2))
					o := vs.NewChan(make(chan interface{}, 2))
					vs.Go(func() {
						vs.PreRecv(in, "harness:pipe-in")
						for v := range in {
							vs.PreSend(o, "harness:pipe-out")
							o <- v
							vs.PreRecv(in, "harness:pipe-in")
						}
						vs.PreClose(o, "harness:pipe-close")
						close(o)
					})
					m.AddPipeline(in, o)
				}
				vs.Go(func() {
					for i, p := range ps {
						m.Put(p, i+1)
					}
					m.Close()
				})
				oc := m.GetOutChannel()
				vs.PreRecv(oc, "harness:mux-out")
				for v := range oc {
					vs.Obs(fmt.Sprint(v))
					vs.PreRecv(oc, "harness:mux-out")
				}
			}})
	}
	// ---- two-stage lookup processor: loaders emitting 0/1/2 items, signals interleaved
	for _, pattern := range [][]int{{}, {1}, {0}, {2}, {1, 1}, {0, 1}, {2, 0, 1}, {1, -1, 2}, {-1}, {0, -1, 0}} {
		pattern := pattern
		var want []string
		for i, k := range pattern {
			if k < 0 {
				want = append(want, fmt.Sprintf("signal%d", i))
				continue
			}
			for j := 0; j < k; j++ {
				want = append(want, fmt.Sprintf("r%d.%d", i, j))
			}
		}
		out = append(out, schedScenario{Name: fmt.Sprintf("DualProcessor/loader-emits=%v", pattern), Class: "dual", Ordered: true, Want: want, Bound: -1, CapMap: small, Budget: 120 * time.Second,
			Body: func() {
				req := vs.NewChan(make(chan gdbi.ElementLookup, 2))
				vs.Go(func() {
					for i, k := range pattern {
						r := gdbi.ElementLookup{ID: fmt.Sprint(i)}
						if k < 0 {
							r.Ref = &gdbi.BaseTraveler{Signal: &gdbi.Signal{ID: i}}
						}
						vs.PreSend(req, "harness:dual-in")
						req <- r
					}
					vs.PreClose(req, "harness:dual-close")
					close(req)
				})
				o := gdbi.DualProcessor(nil, req, true, func(r gdbi.ElementLookup, load bool) chan interface{} {
					var idx int
					fmt.Sscan(r.ID, &idx)
					c := vs.NewChan(make(chan interface{}, 2))
					vs.Go(func() {
						for j := 0; j < pattern[idx]; j++ {
							vs.PreSend(c, "harness:loader-out")
							c <- fmt.Sprintf("r%d.%d", idx, j)
						}
						vs.PreClose(c, "harness:loader-close")
						close(c)
					})
					return c
				}, func(r gdbi.ElementLookup, data interface{}) gdbi.ElementLookup {
					r.ID = data.(string)
					return r
				})
				vs.PreRecv(o, "harness:dual-out")
				for r := range o {
					if r.IsSignal() {
						vs.Obs(fmt.Sprintf("signal%d", r.Ref.GetSignal().ID))
					} else {
						vs.Obs(r.ID)
					}
					vs.PreRecv(o, "harness:dual-out")
				}
			}})
	}
	// ---- lookup batcher: batch sizes 1..3, N <= 4, the clock advances only through its own sleeps
	for _, bs := range []int{1, 2, 3} {
		top := 4
		if !thorough {
			top = 3
		}
		for n := 0; n <= top; n++ {
			bs, n := bs, n
			out = append(out, schedScenario{Name: fmt.Sprintf("LookupBatcher/batch=%d/N=%d", bs, n), Class: "batcher", Ordered: true, Want: seq(n), Bound: -1, CapMap: small, Budget: 120 * time.Second,
				Body: func() {
					req := vs.NewChan(make(chan gdbi.ElementLookup, 2))
					vs.Go(func() {
						for i := 0; i < n; i++ {
							vs.PreSend(req, "harness:batch-in")
							req <- gdbi.ElementLookup{ID: fmt.Sprint(i + 1)}
						}
						vs.PreClose(req, "harness:batch-close")
						close(req)
					})
					o := gdbi.LookupBatcher(req, bs, 4*time.Microsecond)
					vs.PreRecv(o, "harness:batch-out")
					for b := range o {
						if len(b) == 0 || len(b) > bs {
							vs.Obs(fmt.Sprintf("bad-batch-size-%d", len(b)))
						}
						for _, r := range b {
							vs.Obs(r.ID)
						}
						vs.PreRecv(o, "harness:batch-out")
					}
				}})
		}
	}
	return out
}

// C13 runs the check.
func C13(tier string, args []string) int {
	w := &schedWorker{prop: "C13", scenarios: c13Scenarios(tier)}
	return runSched("C13", tier, args, w,
		"per combinator a closed harness (producer, the real combinator, consumer) per input length / worker count / Put sequence / loader pattern; ALL interleavings of every harness are enumerated (state cache, no preemption bound) unless the per-scenario time cap is hit; output sequence must equal the input sequence, the output must be closed, no goroutine may be left parked, no deadlock, no quiescent spin",
		[]string{
			"channel capacities of the serializer (10 per worker), the mux (50/250) and the queue (50) are scaled down to 2-3 in the 'scaled' scenarios so that buffer-full interleavings are reachable with a handful of items; the jump queue is also explored with its real capacities",
			"the lookup batcher's clock is virtual: it advances only by the batcher's own sleeps (timeout/4 each), so the timeout can fire between any two arrivals or not at all, depending on the schedule",
			"GOMAXPROCS settings are subsumed: the scheduler enumerates the interleavings at synchronisation granularity that any number of processors could produce",
		})
}
