#!/bin/bash
# MANIFEST.setup_cmd: builds the harness binaries offline and warms the Go build cache.
set -eu
cd "$(dirname "$0")"
export GOFLAGS=-mod=mod GOPROXY=off GOSUMDB=off GOTOOLCHAIN=local
mkdir -p .work/bin evidence
cp /repo/go.sum harness/go.sum 2>/dev/null || true
./build.sh all
echo "setup ok"
