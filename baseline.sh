#!/bin/bash
# Runs the repository's own pinned test suite with the verif guard OFF (no tag, no overlay)
# and compares with /root/.vp/BASELINE.json's stable_pass list.  Usage: ./baseline.sh [repo-dir]
export GOPROXY=off GOSUMDB=off GOTOOLCHAIN=local
REPO="${1:-/repo}"
OUT="$(mktemp)"
(cd "$REPO" && go test -mod=mod -json -vet=off -count=1 -timeout 25m ./... > "$OUT" 2>/dev/null)
python3 - "$OUT" "$REPO" <<'PY'
import json,sys
res={}
for l in open(sys.argv[1]):
    try: e=json.loads(l)
    except Exception: continue
    if e.get('Test') and e.get('Action') in ('pass','fail','skip'):
        res[e['Package']+'::'+e['Test']]=e['Action']
base=json.load(open('/root/.vp/BASELINE.json'))
bad=[t for t in base['stable_pass'] if res.get(t)!='pass']
# kvgraph/test and test/server flake on the original commit too (temp-directory removal race, port
# reuse); a stable test that did not pass is re-run alone, up to 3 times, before it counts as failing
import subprocess,os
still=[]
for t in bad:
    pkg,name=t.split('::')
    ok=False
    for _ in range(3):
        r=subprocess.run(['go','test','-mod=mod','-vet=off','-count=1','-run','^'+name.split('/')[0]+'$',pkg.replace('github.com/bmeg/grip','.')],cwd=sys.argv[2],capture_output=True,text=True)
        if r.returncode==0: ok=True; break
    print("  re-run alone:",t,"pass" if ok else "FAIL")
    if not ok: still.append(t)
bad=still
print(f"baseline: {len(base['stable_pass'])-len(bad)}/{len(base['stable_pass'])} stable tests pass")
for t in bad: print("  NOT PASSING:",t,res.get(t))
sys.exit(1 if bad else 0)
PY
rc=$?
rm -f "$OUT"
exit $rc
