#!/bin/bash
# Runs the repository's own pinned test suite with the verif guard OFF (no tag, no overlay)
# and compares with /root/.vp/BASELINE.json's stable_pass list.  Usage: ./baseline.sh [repo-dir]
export GOPROXY=off GOSUMDB=off GOTOOLCHAIN=local
REPO="${1:-/repo}"
OUT="$(mktemp)"
(cd "$REPO" && go test -mod=mod -json -vet=off -count=1 -timeout 25m ./... > "$OUT" 2>/dev/null)
python3 - "$OUT" <<'PY'
import json,sys
res={}
for l in open(sys.argv[1]):
    try: e=json.loads(l)
    except Exception: continue
    if e.get('Test') and e.get('Action') in ('pass','fail','skip'):
        res[e['Package']+'::'+e['Test']]=e['Action']
base=json.load(open('/root/.vp/BASELINE.json'))
bad=[t for t in base['stable_pass'] if res.get(t)!='pass']
print(f"baseline: {len(base['stable_pass'])-len(bad)}/{len(base['stable_pass'])} stable tests pass")
for t in bad: print("  NOT PASSING:",t,res.get(t))
sys.exit(1 if bad else 0)
PY
rc=$?
rm -f "$OUT"
exit $rc
