// Command instr rewrites grip's concurrency-bearing source files so that every
// channel operation, goroutine spawn, mutex/waitgroup call, sleep and context
// cancel goes through the verifsched hooks. It only INSERTS calls (and swaps
// the sync/errgroup imports for shims); it never restructures control flow.
// Shapes it does not model become a runtime trap (verifsched.Unsupported).
//
// usage: instr -repo /repo -out <dir> -files pkg/file.go,pkg/file2.go ...
// Writes the rewritten files under <out> and prints an overlay fragment (JSON)
// plus a site manifest on stdout.
package main

import (
	"bytes"
	"encoding/json"
	"flag"
	"fmt"
	"go/ast"
	"go/format"
	"go/token"
	"go/types"
	"os"
	"path/filepath"
	"strconv"
	"strings"

	"golang.org/x/tools/go/ast/astutil"
	"golang.org/x/tools/go/packages"
)

const vsPath = "github.com/bmeg/grip/verifsched"

type rewriter struct {
	fset  *token.FileSet
	info  *types.Info
	file  *ast.File
	rel   string
	sites map[string]int
	tmpN  int
	io    bool // file-system calls (package os, io/ioutil, filepath.Glob, methods of *os.File) become scheduling points
	race   bool // memory-access hooks for the happens-before race detector (race.go)
	shared map[*types.Var]bool
	curFn  string
}

// ioCall reports whether the statement contains a file-system call outside function literals.
func (r *rewriter) ioCall(n ast.Node) bool {
	found := false
	ast.Inspect(n, func(c ast.Node) bool {
		if found {
			return false
		}
		if _, ok := c.(*ast.FuncLit); ok {
			return false
		}
		call, ok := c.(*ast.CallExpr)
		if !ok {
			return true
		}
		sel, ok := call.Fun.(*ast.SelectorExpr)
		if !ok {
			return true
		}
		if id, ok := sel.X.(*ast.Ident); ok {
			if pn, ok := r.info.Uses[id].(*types.PkgName); ok {
				switch pn.Imported().Path() {
				case "os", "io/ioutil":
					switch sel.Sel.Name {
					case "IsNotExist", "IsExist", "Getenv":
					default:
						found = true
					}
				case "path/filepath":
					found = sel.Sel.Name == "Glob" || sel.Sel.Name == "Walk"
				}
				return true
			}
		}
		if t := r.info.TypeOf(sel.X); t != nil {
			if pt, ok := t.(*types.Pointer); ok {
				if nt, ok := pt.Elem().(*types.Named); ok && nt.Obj().Pkg() != nil && nt.Obj().Pkg().Path() == "os" && nt.Obj().Name() == "File" {
					found = true
				}
			}
		}
		return true
	})
	return found
}

func (r *rewriter) ioPoint(s ast.Stmt) []ast.Stmt {
	if !r.io || !r.ioCall(s) {
		return nil
	}
	r.count("io")
	return []ast.Stmt{stmt(vsCall("PointAt", &ast.BasicLit{Kind: token.STRING, Value: strconv.Quote("io@" + r.posStr(s))}))}
}

func (r *rewriter) site(n ast.Node) *ast.BasicLit {
	p := r.fset.Position(n.Pos())
	return &ast.BasicLit{Kind: token.STRING, Value: strconv.Quote(fmt.Sprintf("%s:%d", r.rel, p.Line))}
}

func vsCall(fn string, args ...ast.Expr) *ast.CallExpr {
	return &ast.CallExpr{Fun: &ast.SelectorExpr{X: ast.NewIdent("verifsched"), Sel: ast.NewIdent(fn)}, Args: args}
}

func stmt(c *ast.CallExpr) ast.Stmt { return &ast.ExprStmt{X: c} }

func (r *rewriter) isChan(e ast.Expr) bool {
	t := r.info.TypeOf(e)
	if t == nil {
		return false
	}
	_, ok := t.Underlying().(*types.Chan)
	return ok
}

func (r *rewriter) count(kind string) { r.sites[kind]++ }

// recvOperands lists the channel operands of receive expressions directly inside n
// (not descending into function literals).
func (r *rewriter) recvOperands(n ast.Node) []ast.Expr {
	var out []ast.Expr
	ast.Inspect(n, func(x ast.Node) bool {
		switch u := x.(type) {
		case *ast.FuncLit:
			return false
		case *ast.UnaryExpr:
			if u.Op == token.ARROW {
				out = append(out, u.X)
			}
		}
		return true
	})
	return out
}

func pureChanExpr(e ast.Expr) bool {
	// identifiers, selectors, index expressions and ctx.Done() calls may be evaluated twice
	switch x := e.(type) {
	case *ast.Ident:
		return true
	case *ast.SelectorExpr:
		return pureChanExpr(x.X)
	case *ast.IndexExpr:
		return pureChanExpr(x.X) && pureChanExpr(x.Index)
	case *ast.BasicLit:
		return true
	case *ast.ParenExpr:
		return pureChanExpr(x.X)
	case *ast.CallExpr:
		if s, ok := x.Fun.(*ast.SelectorExpr); ok && s.Sel.Name == "Done" && len(x.Args) == 0 {
			return pureChanExpr(s.X)
		}
	}
	return false
}

// continuesOf inserts `pre` before every `continue` that targets loop (unlabelled
// inside it, not inside a nested loop; or labelled with its label).
func (r *rewriter) patchContinues(body *ast.BlockStmt, label string, pre func() ast.Stmt) {
	var walk func(n ast.Node, nested bool)
	walkList := func(list []ast.Stmt, nested bool) []ast.Stmt {
		var out []ast.Stmt
		for _, s := range list {
			if b, ok := s.(*ast.BranchStmt); ok && b.Tok == token.CONTINUE {
				if (b.Label == nil && !nested) || (b.Label != nil && b.Label.Name == label && label != "") {
					out = append(out, pre())
				}
			}
			out = append(out, s)
		}
		return out
	}
	walk = func(n ast.Node, nested bool) {
		switch x := n.(type) {
		case *ast.BlockStmt:
			x.List = walkList(x.List, nested)
			for _, s := range x.List {
				walk(s, nested)
			}
		case *ast.CaseClause:
			x.Body = walkList(x.Body, nested)
			for _, s := range x.Body {
				walk(s, nested)
			}
		case *ast.CommClause:
			x.Body = walkList(x.Body, nested)
			for _, s := range x.Body {
				walk(s, nested)
			}
		case *ast.IfStmt:
			walk(x.Body, nested)
			if x.Else != nil {
				walk(x.Else, nested)
			}
		case *ast.ForStmt:
			walk(x.Body, true)
		case *ast.RangeStmt:
			walk(x.Body, true)
		case *ast.SwitchStmt:
			walk(x.Body, nested)
		case *ast.TypeSwitchStmt:
			walk(x.Body, nested)
		case *ast.SelectStmt:
			walk(x.Body, nested)
		case *ast.LabeledStmt:
			walk(x.Stmt, nested)
		}
	}
	walk(body, false)
}

// rewriteList rewrites one statement list (block body, case body ...).
func (r *rewriter) rewriteList(list []ast.Stmt) []ast.Stmt {
	var out []ast.Stmt
	for _, s := range list {
		if !r.race {
			out = append(out, r.rewriteStmt(s)...)
			continue
		}
		// the accesses are read off the statement as written, before hooks are inserted into it
		c, bracket, canFollow := r.accesses(s)
		out = append(out, r.raceWrap(r.rewriteStmt(s), c, bracket, canFollow, s)...)
	}
	return out
}

func (r *rewriter) rewriteStmt(s ast.Stmt) []ast.Stmt {
	switch x := s.(type) {
	case *ast.BlockStmt:
		x.List = r.rewriteList(x.List)
		return []ast.Stmt{x}
	case *ast.LabeledStmt:
		inner := r.rewriteStmt(x.Stmt)
		if len(inner) == 1 {
			x.Stmt = inner[0]
			return []ast.Stmt{x}
		}
		// statements were inserted before the labelled statement: keep the label on the last one
		x.Stmt = inner[len(inner)-1]
		return append(inner[:len(inner)-1], x)
	case *ast.IfStmt:
		var pre []ast.Stmt
		if x.Init != nil {
			pre = append(pre, r.ioPoint(x.Init)...)
			for _, ch := range r.recvOperands(x.Init) {
				pre = append(pre, r.preRecv(ch, x))
			}
		}
		for _, ch := range r.recvOperands(x.Cond) {
			pre = append(pre, r.preRecv(ch, x))
		}
		if r.io && r.ioCall(x.Cond) {
			r.count("io")
			pre = append(pre, stmt(vsCall("PointAt", &ast.BasicLit{Kind: token.STRING, Value: strconv.Quote("io@" + r.posStr(x))})))
		}
		x.Body.List = r.rewriteList(x.Body.List)
		if x.Else != nil {
			switch e := x.Else.(type) {
			case *ast.BlockStmt:
				e.List = r.rewriteList(e.List)
			case *ast.IfStmt:
				el := r.rewriteStmt(e)
				if len(el) == 1 {
					x.Else = el[0]
				} else {
					x.Else = &ast.BlockStmt{List: el}
				}
			}
		}
		r.funcLits(x.Cond)
		return append(pre, x)
	case *ast.ForStmt:
		if x.Cond != nil && len(r.recvOperands(x.Cond)) > 0 {
			return []ast.Stmt{stmt(vsCall("Unsupported", r.site(x))), x}
		}
		x.Body.List = r.rewriteList(x.Body.List)
		return []ast.Stmt{x}
	case *ast.RangeStmt:
		if !r.isChan(x.X) {
			r.funcLits(x.X)
			x.Body.List = r.rewriteList(x.Body.List)
			return []ast.Stmt{x}
		}
		r.count("range-chan")
		var pre []ast.Stmt
		chExpr := x.X
		if !pureChanExpr(chExpr) {
			// hoist the operand once, as Go itself evaluates it
			r.tmpN++
			tmp := ast.NewIdent(fmt.Sprintf("_vsc%d", r.tmpN))
			pre = append(pre, &ast.AssignStmt{Lhs: []ast.Expr{tmp}, Tok: token.DEFINE, Rhs: []ast.Expr{chExpr}})
			x.X = tmp
			chExpr = tmp
			r.funcLits(pre[0])
		}
		mk := func() ast.Stmt { return r.preRecv(chExpr, x) }
		pre = append(pre, mk())
		x.Body.List = r.rewriteList(x.Body.List)
		r.patchContinues(x.Body, "", mk)
		x.Body.List = append(x.Body.List, mk())
		if len(pre) > 1 {
			return []ast.Stmt{&ast.BlockStmt{List: append(pre, x)}}
		}
		return append(pre, x)
	case *ast.SwitchStmt:
		for _, c := range x.Body.List {
			cc := c.(*ast.CaseClause)
			cc.Body = r.rewriteList(cc.Body)
		}
		return []ast.Stmt{x}
	case *ast.TypeSwitchStmt:
		for _, c := range x.Body.List {
			cc := c.(*ast.CaseClause)
			cc.Body = r.rewriteList(cc.Body)
		}
		return []ast.Stmt{x}
	case *ast.SelectStmt:
		return r.rewriteSelect(x)
	case *ast.SendStmt:
		r.count("send")
		r.funcLits(x.Value)
		return []ast.Stmt{stmt(vsCall("PreSend", x.Chan, r.site(x))), x}
	case *ast.GoStmt:
		return r.rewriteGo(x)
	case *ast.DeferStmt:
		if id, ok := x.Call.Fun.(*ast.Ident); ok && id.Name == "close" && len(x.Call.Args) == 1 {
			r.count("defer-close")
			x.Call = vsCall("CloseDeferred", x.Call.Args[0], r.site(x))
			return []ast.Stmt{x}
		}
		r.funcLits(x.Call)
		return []ast.Stmt{x}
	case *ast.ExprStmt:
		if c, ok := x.X.(*ast.CallExpr); ok {
			if id, ok := c.Fun.(*ast.Ident); ok && id.Name == "close" && len(c.Args) == 1 && r.isChan(c.Args[0]) {
				r.count("close")
				return []ast.Stmt{stmt(vsCall("PreClose", c.Args[0], r.site(x))), x}
			}
			if r.isCancelCall(c) {
				r.count("cancel")
				return []ast.Stmt{stmt(vsCall("PointAt", &ast.BasicLit{Kind: token.STRING, Value: strconv.Quote("cancel@" + r.posStr(x))})), x}
			}
			if r.isTimeCall(c, "Sleep") {
				r.count("sleep")
				x.X = vsCall("Sleep", c.Args[0], r.site(x))
				return []ast.Stmt{x}
			}
		}
		pre := r.ioPoint(x)
		for _, ch := range r.recvOperands(x) {
			pre = append(pre, r.preRecv(ch, x))
		}
		r.funcLits(x.X)
		return append(pre, x)
	case *ast.AssignStmt, *ast.DeclStmt, *ast.ReturnStmt, *ast.IncDecStmt:
		pre := r.ioPoint(x)
		for _, ch := range r.recvOperands(x) {
			pre = append(pre, r.preRecv(ch, x))
		}
		r.funcLits(x)
		return append(pre, x)
	}
	return []ast.Stmt{s}
}

func (r *rewriter) posStr(n ast.Node) string {
	p := r.fset.Position(n.Pos())
	return fmt.Sprintf("%s:%d", r.rel, p.Line)
}

func (r *rewriter) preRecv(ch ast.Expr, at ast.Node) ast.Stmt {
	r.count("recv")
	if !pureChanExpr(ch) {
		return stmt(vsCall("Unsupported", &ast.BasicLit{Kind: token.STRING, Value: strconv.Quote("receive operand with side effects at " + r.posStr(at))}))
	}
	return stmt(vsCall("PreRecv", ch, r.site(at)))
}

func (r *rewriter) isCancelCall(c *ast.CallExpr) bool {
	t := r.info.TypeOf(c.Fun)
	if t == nil {
		return false
	}
	if n, ok := t.(*types.Named); ok {
		return n.Obj().Name() == "CancelFunc" && n.Obj().Pkg() != nil && n.Obj().Pkg().Path() == "context"
	}
	return false
}

func (r *rewriter) isTimeCall(c *ast.CallExpr, name string) bool {
	s, ok := c.Fun.(*ast.SelectorExpr)
	if !ok || s.Sel.Name != name {
		return false
	}
	id, ok := s.X.(*ast.Ident)
	if !ok {
		return false
	}
	if pn, ok := r.info.Uses[id].(*types.PkgName); ok {
		return pn.Imported().Path() == "time"
	}
	return false
}

func (r *rewriter) rewriteSelect(x *ast.SelectStmt) []ast.Stmt {
	var comm *ast.CommClause
	var def *ast.CommClause
	n := 0
	for _, c := range x.Body.List {
		cc := c.(*ast.CommClause)
		if cc.Comm == nil {
			def = cc
		} else {
			comm = cc
			n++
		}
	}
	for _, c := range x.Body.List {
		cc := c.(*ast.CommClause)
		cc.Body = r.rewriteList(cc.Body)
	}
	if n != 1 || def == nil {
		r.count("select-unsupported")
		return []ast.Stmt{stmt(vsCall("Unsupported", &ast.BasicLit{Kind: token.STRING, Value: strconv.Quote("blocking or multi-case select at " + r.posStr(x))})), x}
	}
	var ch ast.Expr
	switch c := comm.Comm.(type) {
	case *ast.ExprStmt:
		if u, ok := c.X.(*ast.UnaryExpr); ok && u.Op == token.ARROW {
			ch = u.X
		}
	case *ast.AssignStmt:
		if len(c.Rhs) == 1 {
			if u, ok := c.Rhs[0].(*ast.UnaryExpr); ok && u.Op == token.ARROW {
				ch = u.X
			}
		}
	}
	if ch == nil || !pureChanExpr(ch) {
		r.count("select-unsupported")
		return []ast.Stmt{stmt(vsCall("Unsupported", &ast.BasicLit{Kind: token.STRING, Value: strconv.Quote("polling send or impure operand at " + r.posStr(x))})), x}
	}
	r.count("poll")
	comm.Body = append([]ast.Stmt{stmt(vsCall("Taken", ch, r.site(x)))}, comm.Body...)
	def.Body = append([]ast.Stmt{stmt(vsCall("Default", ch, r.site(x)))}, def.Body...)
	return []ast.Stmt{stmt(vsCall("PrePoll", ch, r.site(x))), x}
}

func (r *rewriter) rewriteGo(x *ast.GoStmt) []ast.Stmt {
	r.count("go")
	call := x.Call
	if fl, ok := call.Fun.(*ast.FuncLit); ok {
		fl.Body.List = r.rewriteList(fl.Body.List)
		if len(call.Args) == 0 {
			return []ast.Stmt{stmt(vsCall("Go", fl))}
		}
	}
	// evaluate the function value's receiver and the arguments now, run the call later
	var pre []ast.Stmt
	var args []ast.Expr
	for _, a := range call.Args {
		r.tmpN++
		tmp := ast.NewIdent(fmt.Sprintf("_vsa%d", r.tmpN))
		pre = append(pre, &ast.AssignStmt{Lhs: []ast.Expr{tmp}, Tok: token.DEFINE, Rhs: []ast.Expr{a}})
		args = append(args, tmp)
	}
	fun := call.Fun
	if _, ok := fun.(*ast.FuncLit); !ok {
		r.tmpN++
		tmp := ast.NewIdent(fmt.Sprintf("_vsf%d", r.tmpN))
		pre = append(pre, &ast.AssignStmt{Lhs: []ast.Expr{tmp}, Tok: token.DEFINE, Rhs: []ast.Expr{fun}})
		fun = tmp
	}
	inner := &ast.CallExpr{Fun: fun, Args: args, Ellipsis: call.Ellipsis}
	lit := &ast.FuncLit{Type: &ast.FuncType{Params: &ast.FieldList{}}, Body: &ast.BlockStmt{List: []ast.Stmt{&ast.ExprStmt{X: inner}}}}
	return []ast.Stmt{&ast.BlockStmt{List: append(pre, stmt(vsCall("Go", lit)))}}
}

// funcLits rewrites the bodies of function literals nested in an expression/statement.
func (r *rewriter) funcLits(n ast.Node) {
	if n == nil {
		return
	}
	ast.Inspect(n, func(x ast.Node) bool {
		if fl, ok := x.(*ast.FuncLit); ok {
			fl.Body.List = r.rewriteList(fl.Body.List)
			return false
		}
		return true
	})
}

// makeChans wraps make(chan T, n) into verifsched.NewChan(make(chan T, verifsched.Cap(n, site))).
func (r *rewriter) makeChans() {
	astutil.Apply(r.file, func(c *astutil.Cursor) bool {
		call, ok := c.Node().(*ast.CallExpr)
		if !ok {
			return true
		}
		id, ok := call.Fun.(*ast.Ident)
		if !ok || id.Name != "make" || len(call.Args) == 0 {
			return true
		}
		if _, ok := call.Args[0].(*ast.ChanType); !ok {
			if t := r.info.TypeOf(call.Args[0]); t == nil {
				return true
			} else if _, ok := t.Underlying().(*types.Chan); !ok {
				return true
			}
		}
		if p, ok := c.Parent().(*ast.CallExpr); ok {
			if s, ok := p.Fun.(*ast.SelectorExpr); ok && s.Sel.Name == "NewChan" {
				return true
			}
		}
		r.count("make-chan")
		if len(call.Args) == 2 {
			call.Args[1] = vsCall("Cap", call.Args[1], r.site(call))
		}
		c.Replace(vsCall("NewChan", call))
		return false
	}, nil)
}

// timeCalls replaces time.Now()/time.Since() (only in files that ask for it).
func (r *rewriter) timeCalls() {
	astutil.Apply(r.file, func(c *astutil.Cursor) bool {
		call, ok := c.Node().(*ast.CallExpr)
		if !ok {
			return true
		}
		for _, n := range []string{"Now", "Since"} {
			if r.isTimeCall(call, n) {
				r.count("clock")
				call.Fun = &ast.SelectorExpr{X: ast.NewIdent("verifsched"), Sel: ast.NewIdent(n)}
			}
		}
		return true
	}, nil)
}

func main() {
	repo := flag.String("repo", "/repo", "repository root")
	out := flag.String("out", "", "output directory")
	files := flag.String("files", "", "comma separated repo-relative files")
	clock := flag.String("clock", "", "comma separated files whose time.Now/Since are virtualised")
	mute := flag.String("mute", "", "comma separated files whose fmt.Printf calls are dropped")
	iof := flag.String("io", "", "comma separated files whose file-system calls become scheduling points")
	racef := flag.String("race", "", "comma separated files whose memory accesses are hooked for the happens-before race detector")
	flag.Parse()
	ioFiles := map[string]bool{}
	for _, f := range strings.Split(*iof, ",") {
		if f != "" {
			ioFiles[filepath.Join(*repo, f)] = true
		}
	}
	raceFiles := map[string]bool{}
	for _, f := range strings.Split(*racef, ",") {
		if f != "" {
			raceFiles[filepath.Join(*repo, f)] = true
		}
	}
	want := map[string]bool{}
	pkgDirs := map[string]bool{}
	for _, f := range strings.Split(*files, ",") {
		if f = strings.TrimSpace(f); f != "" {
			want[filepath.Join(*repo, f)] = true
			pkgDirs["./"+filepath.Dir(f)] = true
		}
	}
	clockFiles := map[string]bool{}
	for _, f := range strings.Split(*clock, ",") {
		if f != "" {
			clockFiles[filepath.Join(*repo, f)] = true
		}
	}
	muteFiles := map[string]bool{}
	for _, f := range strings.Split(*mute, ",") {
		if f != "" {
			muteFiles[filepath.Join(*repo, f)] = true
		}
	}
	var patterns []string
	for d := range pkgDirs {
		patterns = append(patterns, d)
	}
	cfg := &packages.Config{Mode: packages.NeedName | packages.NeedFiles | packages.NeedSyntax | packages.NeedTypes | packages.NeedTypesInfo | packages.NeedImports | packages.NeedCompiledGoFiles,
		Dir: *repo, Env: append(os.Environ(), "GOFLAGS=-mod=mod", "GOPROXY=off", "GOSUMDB=off")}
	pkgs, err := packages.Load(cfg, patterns...)
	if err != nil {
		fmt.Fprintln(os.Stderr, "instr: load:", err)
		os.Exit(2)
	}
	overlay := map[string]string{}
	manifest := map[string]map[string]int{}
	for _, p := range pkgs {
		for _, e := range p.Errors {
			fmt.Fprintln(os.Stderr, "instr: package error:", e)
		}
		for i, f := range p.Syntax {
			path := p.CompiledGoFiles[i]
			if !want[path] {
				continue
			}
			rel, _ := filepath.Rel(*repo, path)
			r := &rewriter{fset: p.Fset, info: p.TypesInfo, file: f, rel: rel, sites: map[string]int{}, io: ioFiles[path], race: raceFiles[path], shared: map[*types.Var]bool{}}
			if r.race {
				for _, d := range f.Decls {
					if fd, ok := d.(*ast.FuncDecl); ok {
						r.computeShared(fd)
					}
				}
			}
			for _, d := range f.Decls {
				if fd, ok := d.(*ast.FuncDecl); ok && fd.Body != nil {
					r.curFn = fd.Name.Name
					if fd.Recv != nil && len(fd.Recv.List) == 1 {
						r.curFn = strings.TrimPrefix(types.ExprString(fd.Recv.List[0].Type), "*") + "." + fd.Name.Name
					}
					fd.Body.List = r.rewriteList(fd.Body.List)
				}
				if gd, ok := d.(*ast.GenDecl); ok {
					r.funcLits(gd)
				}
			}
			r.makeChans()
			if clockFiles[path] {
				r.timeCalls()
			}
			if muteFiles[path] {
				astutil.Apply(f, func(c *astutil.Cursor) bool {
					if es, ok := c.Node().(*ast.ExprStmt); ok {
						if call, ok := es.X.(*ast.CallExpr); ok {
							if s, ok := call.Fun.(*ast.SelectorExpr); ok {
								if id, ok := s.X.(*ast.Ident); ok && id.Name == "fmt" && strings.HasPrefix(s.Sel.Name, "Print") {
									c.Replace(&ast.EmptyStmt{})
								}
							}
						}
					}
					return true
				}, nil)
			}
			// imports: sync -> vsync, errgroup -> verrgroup, add verifsched
			for _, imp := range f.Imports {
				switch imp.Path.Value {
				case `"sync"`:
					imp.Path.Value = strconv.Quote(vsPath + "/vsync")
					imp.Name = ast.NewIdent("sync")
					r.count("import-sync")
				case `"golang.org/x/sync/errgroup"`:
					imp.Path.Value = strconv.Quote(vsPath + "/verrgroup")
					imp.Name = ast.NewIdent("errgroup")
					r.count("import-errgroup")
				}
			}
			astutil.AddImport(p.Fset, f, vsPath)
			// keep otherwise unused imports alive (fmt after muting, time after Sleep rewriting)
			var buf bytes.Buffer
			if err := format.Node(&buf, p.Fset, f); err != nil {
				fmt.Fprintln(os.Stderr, "instr: format", rel, err)
				os.Exit(2)
			}
			src := buf.String()
			src += "\n\nvar _ = verifsched.Active\n"
			if muteFiles[path] {
				src += "var _ = fmt.Sprint\n"
			}
			if strings.Contains(src, "\"time\"") {
				src += "var _ = time.Now\n"
			}
			dst := filepath.Join(*out, strings.ReplaceAll(rel, "/", "__"))
			os.MkdirAll(filepath.Dir(dst), 0o755)
			if err := os.WriteFile(dst, []byte(src), 0o644); err != nil {
				fmt.Fprintln(os.Stderr, "instr:", err)
				os.Exit(2)
			}
			overlay[path] = dst
			manifest[rel] = r.sites
		}
	}
	for w := range want {
		if _, ok := overlay[w]; !ok {
			fmt.Fprintln(os.Stderr, "instr: file not found in loaded packages:", w)
			os.Exit(2)
		}
	}
	json.NewEncoder(os.Stdout).Encode(map[string]any{"overlay": overlay, "manifest": manifest})
}
