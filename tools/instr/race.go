package main

// Memory-access hooks for the happens-before race detector of the scheduler (engines/vsched/race.go).
//
// For the files named with -race, every simple statement (assignment, inc/dec, expression statement,
// send, declaration, and the call-free conditions of if/switch/range/return) is preceded by a hook that
// names the memory the statement reads and writes:
//   - struct fields reached through an addressable, side-effect-free path      a.R(&x.f) / a.W(&x.f)
//   - slice elements                                                            a.R(&s[i])
//   - pointer dereferences                                                      a.R(p)
//   - map objects (lookup, len, range = read; assignment, delete = write)      a.RM(m) / a.WM(m)
//   - package-level variables, and locals that a function literal shares with its
//     enclosing function and that are assigned after their declaration         a.R(&v)
// Right operands of && and || are not named (they may not be evaluated). A statement that contains a
// call is bracketed by AccBegin/AccEnd: its accesses count only if no synchronisation happened inside.

import (
	"fmt"
	"go/ast"
	"go/token"
	"go/types"
	"strconv"
	"strings"
)

const (
	mNone = iota
	mRead
	mWrite
	mRW
)

type accEntry struct {
	fn   string // R W RM WM
	expr ast.Expr
	addr bool // take the address of expr
}

type collector struct {
	r       *rewriter
	entries []accEntry
	seen    map[string]bool
}

// shared: variables that get hooks (package level, or captured by a closure and mutated)
func (r *rewriter) computeShared(fd *ast.FuncDecl) {
	if fd.Body == nil {
		return
	}
	captured := map[*types.Var]bool{}
	var lits []*ast.FuncLit
	ast.Inspect(fd.Body, func(n ast.Node) bool {
		if fl, ok := n.(*ast.FuncLit); ok {
			lits = append(lits, fl)
		}
		return true
	})
	for _, fl := range lits {
		ast.Inspect(fl.Body, func(n ast.Node) bool {
			id, ok := n.(*ast.Ident)
			if !ok {
				return true
			}
			v, ok := r.info.Uses[id].(*types.Var)
			if !ok || v.IsField() || v.Pkg() == nil || v.Parent() == v.Pkg().Scope() {
				return true
			}
			if v.Pos() < fl.Pos() || v.Pos() > fl.End() {
				captured[v] = true
			}
			return true
		})
	}
	if len(captured) == 0 {
		return
	}
	mutated := map[*types.Var]bool{}
	mark := func(e ast.Expr) {
		for {
			p, ok := e.(*ast.ParenExpr)
			if !ok {
				break
			}
			e = p.X
		}
		if id, ok := e.(*ast.Ident); ok {
			if v, ok := r.info.Uses[id].(*types.Var); ok {
				mutated[v] = true
			}
		}
	}
	ast.Inspect(fd.Body, func(n ast.Node) bool {
		switch x := n.(type) {
		case *ast.AssignStmt:
			for _, l := range x.Lhs {
				mark(l) // for := only re-used variables are in Uses
			}
		case *ast.IncDecStmt:
			mark(x.X)
		case *ast.RangeStmt:
			if x.Tok == token.ASSIGN {
				if x.Key != nil {
					mark(x.Key)
				}
				if x.Value != nil {
					mark(x.Value)
				}
			}
		case *ast.UnaryExpr:
			if x.Op == token.AND {
				mark(x.X)
			}
		}
		return true
	})
	for v := range captured {
		if mutated[v] {
			r.shared[v] = true
		}
	}
}

func (r *rewriter) syncType(t types.Type) bool {
	for {
		if p, ok := t.(*types.Pointer); ok {
			t = p.Elem()
			continue
		}
		break
	}
	if n, ok := t.(*types.Named); ok && n.Obj().Pkg() != nil {
		switch p := n.Obj().Pkg().Path(); {
		case p == "sync", p == "sync/atomic", strings.HasPrefix(p, vsPath), p == "golang.org/x/sync/errgroup":
			return true
		}
	}
	return false
}

func pureExpr(e ast.Expr) bool {
	switch x := e.(type) {
	case *ast.Ident, *ast.BasicLit:
		return true
	case *ast.SelectorExpr:
		return pureExpr(x.X)
	case *ast.IndexExpr:
		return pureExpr(x.X) && pureExpr(x.Index)
	case *ast.StarExpr:
		return pureExpr(x.X)
	case *ast.ParenExpr:
		return pureExpr(x.X)
	}
	return false
}

func (c *collector) isPtr(e ast.Expr) bool {
	t := c.r.info.TypeOf(e)
	if t == nil {
		return false
	}
	_, ok := t.Underlying().(*types.Pointer)
	return ok
}

func (c *collector) addressable(e ast.Expr) bool {
	switch x := e.(type) {
	case *ast.Ident:
		_, ok := c.r.info.Uses[x].(*types.Var)
		if !ok {
			_, ok = c.r.info.Defs[x].(*types.Var)
		}
		return ok && x.Name != "_"
	case *ast.ParenExpr:
		return c.addressable(x.X)
	case *ast.StarExpr:
		return true
	case *ast.SelectorExpr:
		sel := c.r.info.Selections[x]
		if sel == nil {
			_, ok := c.r.info.Uses[x.Sel].(*types.Var) // pkg.Var
			return ok
		}
		if sel.Kind() != types.FieldVal {
			return false
		}
		if c.isPtr(x.X) || sel.Indirect() {
			return true
		}
		return c.addressable(x.X)
	case *ast.IndexExpr:
		t := c.r.info.TypeOf(x.X)
		if t == nil {
			return false
		}
		switch u := t.Underlying().(type) {
		case *types.Slice:
			return true
		case *types.Array:
			return c.addressable(x.X)
		case *types.Pointer:
			_, ok := u.Elem().Underlying().(*types.Array)
			return ok
		}
	}
	return false
}

func (c *collector) add(fn string, e ast.Expr, addr bool) {
	key := fn + "|" + types.ExprString(e)
	if c.seen[key] {
		return
	}
	c.seen[key] = true
	c.entries = append(c.entries, accEntry{fn: fn, expr: e, addr: addr})
}

func (c *collector) record(e ast.Expr, mode int) {
	t := c.r.info.TypeOf(e)
	if t == nil || c.r.syncType(t) {
		return
	}
	if _, ok := t.Underlying().(*types.TypeParam); ok {
		return
	}
	if mode == mRead || mode == mRW {
		c.add("R", e, true)
	}
	if mode == mWrite || mode == mRW {
		c.add("W", e, true)
	}
}

func (c *collector) isBuiltinOrConv(call *ast.CallExpr) bool {
	fun := call.Fun
	for {
		p, ok := fun.(*ast.ParenExpr)
		if !ok {
			break
		}
		fun = p.X
	}
	if tv, ok := c.r.info.Types[fun]; ok && tv.IsType() {
		return true
	}
	if id, ok := fun.(*ast.Ident); ok {
		if _, ok := c.r.info.Uses[id].(*types.Builtin); ok {
			return id.Name != "panic" && id.Name != "recover"
		}
	}
	return false
}

// hasCall: a call other than a builtin or a conversion occurs in n (outside function literals), or a receive.
func (c *collector) hasCall(n ast.Node) bool {
	found := false
	ast.Inspect(n, func(x ast.Node) bool {
		if found {
			return false
		}
		switch u := x.(type) {
		case *ast.FuncLit:
			return false
		case *ast.CallExpr:
			if !c.isBuiltinOrConv(u) {
				found = true
			}
		case *ast.UnaryExpr:
			if u.Op == token.ARROW {
				found = true
			}
		}
		return true
	})
	return found
}

func (c *collector) expr(e ast.Expr, mode int) {
	if e == nil {
		return
	}
	info := c.r.info
	switch x := e.(type) {
	case *ast.ParenExpr:
		c.expr(x.X, mode)
	case *ast.Ident:
		if mode == mNone || x.Name == "_" {
			return
		}
		// a variable the statement itself declares cannot be named before the statement
		v, _ := info.Uses[x].(*types.Var)
		if v == nil || v.IsField() || v.Pkg() == nil {
			return
		}
		if v.Parent() == v.Pkg().Scope() || c.r.shared[v] {
			c.record(x, mode)
		}
	case *ast.SelectorExpr:
		sel := info.Selections[x]
		if sel == nil {
			// qualified identifier
			if v, ok := info.Uses[x.Sel].(*types.Var); ok && mode != mNone && v.Pkg() != nil && strings.HasPrefix(v.Pkg().Path(), "github.com/bmeg/grip") {
				c.record(x, mode)
			}
			return
		}
		switch sel.Kind() {
		case types.FieldVal:
			if mode != mNone && pureExpr(x) && c.addressable(x) {
				c.record(x, mode)
			}
			if c.isPtr(x.X) {
				c.expr(x.X, mRead)
			} else {
				c.expr(x.X, mNone)
			}
		case types.MethodVal:
			recvPtr := false
			if sig, ok := sel.Obj().Type().(*types.Signature); ok && sig.Recv() != nil {
				_, recvPtr = sig.Recv().Type().(*types.Pointer)
			}
			if c.isPtr(x.X) || !recvPtr {
				c.expr(x.X, mRead)
			} else {
				c.expr(x.X, mNone)
			}
		default:
			c.expr(x.X, mRead)
		}
	case *ast.IndexExpr:
		t := info.TypeOf(x.X)
		if t == nil {
			return
		}
		switch t.Underlying().(type) {
		case *types.Map:
			if mode != mNone && pureExpr(x.X) {
				if mode == mRead {
					c.add("RM", x.X, false)
				} else {
					c.add("WM", x.X, false)
				}
			}
			c.expr(x.X, mRead)
			c.expr(x.Index, mRead)
		case *types.Slice:
			if mode != mNone && pureExpr(x) {
				c.record(x, mode)
			}
			c.expr(x.X, mRead)
			c.expr(x.Index, mRead)
		case *types.Array:
			if mode != mNone && pureExpr(x) && c.addressable(x) {
				c.record(x, mode)
			}
			c.expr(x.X, mNone)
			c.expr(x.Index, mRead)
		default:
			c.expr(x.X, mRead)
			if _, ok := t.Underlying().(*types.Signature); !ok {
				c.expr(x.Index, mRead)
			}
		}
	case *ast.StarExpr:
		if mode != mNone && pureExpr(x.X) && c.isPtr(x.X) {
			t := info.TypeOf(x)
			if t != nil && !c.r.syncType(t) {
				if mode == mRead || mode == mRW {
					c.add("R", x.X, false)
				}
				if mode == mWrite || mode == mRW {
					c.add("W", x.X, false)
				}
			}
		}
		c.expr(x.X, mRead)
	case *ast.UnaryExpr:
		if x.Op == token.AND {
			c.expr(x.X, mNone)
		} else {
			c.expr(x.X, mRead)
		}
	case *ast.BinaryExpr:
		c.expr(x.X, mRead)
		if x.Op != token.LAND && x.Op != token.LOR {
			c.expr(x.Y, mRead)
		}
	case *ast.CallExpr:
		if id, ok := x.Fun.(*ast.Ident); ok {
			if _, ok := info.Uses[id].(*types.Builtin); ok {
				switch id.Name {
				case "len", "cap":
					if len(x.Args) == 1 {
						if t := info.TypeOf(x.Args[0]); t != nil {
							if _, ok := t.Underlying().(*types.Map); ok && pureExpr(x.Args[0]) {
								c.add("RM", x.Args[0], false)
							}
						}
					}
				case "delete":
					if len(x.Args) == 2 && pureExpr(x.Args[0]) {
						c.add("WM", x.Args[0], false)
					}
				case "new", "make":
					for _, a := range x.Args[1:] {
						c.expr(a, mRead)
					}
					return
				}
				for _, a := range x.Args {
					c.expr(a, mRead)
				}
				return
			}
		}
		if tv, ok := info.Types[x.Fun]; !ok || !tv.IsType() {
			c.expr(x.Fun, mRead)
		}
		for _, a := range x.Args {
			c.expr(a, mRead)
		}
	case *ast.CompositeLit:
		for _, el := range x.Elts {
			if kv, ok := el.(*ast.KeyValueExpr); ok {
				c.expr(kv.Value, mRead)
			} else {
				c.expr(el, mRead)
			}
		}
	case *ast.SliceExpr:
		if t := info.TypeOf(x.X); t != nil {
			if _, ok := t.Underlying().(*types.Array); ok {
				c.expr(x.X, mNone)
			} else {
				c.expr(x.X, mRead)
			}
		}
		c.expr(x.Low, mRead)
		c.expr(x.High, mRead)
		c.expr(x.Max, mRead)
	case *ast.TypeAssertExpr:
		c.expr(x.X, mRead)
	case *ast.KeyValueExpr:
		c.expr(x.Value, mRead)
	}
}

// accesses returns the entries of statement s and whether it must be bracketed (contains a call).
func (r *rewriter) accesses(s ast.Stmt) (*collector, bool, bool) {
	c := &collector{r: r, seen: map[string]bool{}}
	switch x := s.(type) {
	case *ast.AssignStmt:
		for _, e := range x.Rhs {
			c.expr(e, mRead)
		}
		for _, l := range x.Lhs {
			switch {
			case x.Tok == token.ASSIGN || x.Tok == token.DEFINE:
				c.expr(l, mWrite)
			default:
				c.expr(l, mRW)
			}
		}
		return c, c.hasCall(x), true
	case *ast.IncDecStmt:
		c.expr(x.X, mRW)
		return c, c.hasCall(x), true
	case *ast.ExprStmt:
		if call, ok := x.X.(*ast.CallExpr); ok {
			if id, ok := call.Fun.(*ast.Ident); ok && (id.Name == "panic" || id.Name == "close") {
				if id.Name == "panic" {
					return nil, false, false
				}
			}
		}
		c.expr(x.X, mRead)
		return c, c.hasCall(x), true
	case *ast.SendStmt:
		c.expr(x.Chan, mRead)
		c.expr(x.Value, mRead)
		return c, c.hasCall(x.Value) || c.hasCall(x.Chan), true
	case *ast.DeclStmt:
		gd, ok := x.Decl.(*ast.GenDecl)
		if !ok || gd.Tok != token.VAR {
			return nil, false, false
		}
		for _, sp := range gd.Specs {
			vs := sp.(*ast.ValueSpec)
			for _, v := range vs.Values {
				c.expr(v, mRead)
			}
		}
		return c, c.hasCall(x), true
	case *ast.ReturnStmt:
		if c.hasCall(x) {
			return nil, false, false
		}
		for _, e := range x.Results {
			c.expr(e, mRead)
		}
		return c, false, false
	case *ast.IfStmt:
		if x.Init != nil {
			// `if v, ok := m[k]; ok {`: the reads of the initialiser (its condition may name what it declares)
			if as, ok := x.Init.(*ast.AssignStmt); ok && as.Tok == token.DEFINE && !c.hasCall(as) {
				for _, e := range as.Rhs {
					c.expr(e, mRead)
				}
				return c, false, false
			}
			return nil, false, false
		}
		if c.hasCall(x.Cond) {
			return nil, false, false
		}
		c.expr(x.Cond, mRead)
		return c, false, false
	case *ast.SwitchStmt:
		if x.Init != nil || x.Tag == nil || c.hasCall(x.Tag) {
			return nil, false, false
		}
		c.expr(x.Tag, mRead)
		return c, false, false
	case *ast.RangeStmt:
		if c.hasCall(x.X) || r.isChan(x.X) {
			return nil, false, false
		}
		if t := r.info.TypeOf(x.X); t != nil {
			if _, ok := t.Underlying().(*types.Map); ok && pureExpr(x.X) {
				c.add("RM", x.X, false)
			}
		}
		c.expr(x.X, mRead)
		return c, false, false
	}
	return nil, false, false
}

// raceWrap surrounds the (already rewritten) statement, which is the last element of rs, with the hooks.
func (r *rewriter) raceWrap(rs []ast.Stmt, c *collector, bracket, canFollow bool, at ast.Stmt) []ast.Stmt {
	if c == nil || len(c.entries) == 0 || len(rs) == 0 {
		return rs
	}
	a := ast.NewIdent("_vsacc")
	var body []ast.Stmt
	for _, e := range c.entries {
		var arg ast.Expr = e.expr
		if e.addr {
			arg = &ast.UnaryExpr{Op: token.AND, X: e.expr}
		}
		body = append(body, &ast.ExprStmt{X: &ast.CallExpr{Fun: &ast.SelectorExpr{X: a, Sel: ast.NewIdent(e.fn)}, Args: []ast.Expr{arg}}})
		r.count("access-" + strings.ToLower(e.fn))
	}
	lit := &ast.FuncLit{
		Type: &ast.FuncType{Params: &ast.FieldList{List: []*ast.Field{{Names: []*ast.Ident{a}, Type: &ast.StarExpr{X: &ast.SelectorExpr{X: ast.NewIdent("verifsched"), Sel: ast.NewIdent("Acc")}}}}}},
		Body: &ast.BlockStmt{List: body},
	}
	pos := r.fset.Position(at.Pos())
	site := &ast.BasicLit{Kind: token.STRING, Value: strconv.Quote(fmt.Sprintf("%s:%s:%d", r.rel, r.curFn, pos.Line))}
	last := rs[len(rs)-1]
	head := rs[:len(rs)-1]
	if !bracket || !canFollow {
		if bracket {
			return rs // a statement with a call that nothing may follow: not hooked
		}
		out := append(append([]ast.Stmt{}, head...), stmt(vsCall("Access", site, lit)))
		return append(out, last)
	}
	r.tmpN++
	tok := ast.NewIdent(fmt.Sprintf("_vsk%d", r.tmpN))
	begin := &ast.AssignStmt{Lhs: []ast.Expr{tok}, Tok: token.DEFINE, Rhs: []ast.Expr{vsCall("AccBegin", site, lit)}}
	out := append(append([]ast.Stmt{}, head...), begin, last, stmt(vsCall("AccEnd", tok)))
	return out
}
