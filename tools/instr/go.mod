module verif/instr

go 1.22.0

toolchain go1.23.5

require golang.org/x/tools v0.29.0

require (
	golang.org/x/mod v0.22.0 // indirect
	golang.org/x/sync v0.10.0 // indirect
)
