#!/usr/bin/env python3
"""Regenerates MANIFEST.json from the table below (keeps it valid at all times)."""
import json, os
ROOT = os.path.dirname(os.path.abspath(__file__))
props = [json.loads(l) for l in open(os.path.join(ROOT, 'properties.jsonl'))]
ids = [p['id'] for p in props]

CHECKS = {
 'C10': dict(engine='histmc', category='model_checking', section='3/C10',
   technique='explicit-state model checking: all 81 abstract store states x every mutator x 4 real drivers, compared step by step with a sorted-map reference model; every cursor program of length<=3 on every state',
   text='Exhaustive over the stated alphabet: every reachable abstract state of the store (4 keys incl. shared prefixes x {absent, empty, "x"}) is built on a fresh instance of each real driver, every mutator (Set/Delete/DeletePrefix/Update/BulkWrite with failing and succeeding callbacks) is applied and the full read battery (point reads, in-transaction reads, forward/reverse scans, all cursor programs) is compared with the model. Right level because the contract is a finite-state refinement of an ordered map.',
   note='memkv is the definition of the ordered map (snapshot views, atomic rollback). Empty keys and Next on an invalid iterator are outside the contract. Values limited to "" and "x".'),
}
CHECKS['C03'] = dict(engine='histmc', category='model_checking', section='3/C03',
   technique='explicit-state breadth-first search over all mutation histories up to a depth, each history replayed on a fresh real kvgraph (over the memkv ordered-map model) and compared with a reference graph model after every step',
   text='Every history of the ~50-operation alphabet (graph create/delete, single/batched/bulk adds incl. relabel, re-endpoint, invalid elements, deletes of present/absent ids, second graph for isolation) up to depth 5 (quick) / 7 (thorough) is executed on the real code; after every step the whole observation battery (lookups, listings, in/out neighbours and incident edges under 4 label filters, label scans and listings, graph list, return value, timestamps of every graph) must equal the model. States are deduplicated on model state + raw key dump + taint set, so leaked garbage keys are never merged away.',
   note='Reference model gmodel (last write wins, cascading vertex delete, isolation). Store is memkv, bound to the real drivers by C10. A failing batch may apply nothing or exactly its valid elements. Behind a known defect the corrupted observation components are masked (taints) so that the search continues; evidence lists the known findings hit.')
CHECKS['C04'] = dict(engine='histmc', category='fault_enumeration', section='3/C04',
   technique='exhaustive crash-point enumeration at the key-value write interface over every state of a bounded breadth-first history search, plus explicit-state search with a restart operation inserted at every position',
   text='Part A: the C03 search with a Reopen operation in the alphabet (depth 5 quick / 7 thorough): a restart at every position of every history, everything observed afterwards must equal the never-stopped model. Part B: for every state of a depth-4 (6) search x every mutating call x a crash before each top-level KV write of the call (write count measured per call, up to 11 for DeleteGraph), the surviving store is reopened and must be self-consistent (every observation equals that of the graph rebuilt from the surviving elements), keep every acknowledged element, and leave each addressed element in its before- or after-state.',
   note='Crash granularity is the KVInterface write call (atomic per the property text); memkv under a counting fault wrapper; reopen = new kvgraph on the same store. Components already corrupted by a known C03 defect in the pre-crash history are masked.')
CHECKS['C09'] = dict(engine='histmc', category='model_checking', section='3/C09',
   technique='explicit-state breadth-first search over index operation histories on the real KVIndex, every query compared with a brute-force scan of the model documents after every step',
   text='Every history over {AddField, RemoveField (x, y.z), AddDoc (2 ids x string/negative/zero/fraction/large values, missing fields), RemoveDoc} up to depth 5 (quick) / 6 (thorough) on a fresh KVIndex over memkv; after each step term matches, term sets, term counts, string term counts, numeric min/max, numeric range counts on a sign-crossing grid, ascending numeric listing and field listing are compared with a scan of the live documents.',
   note='Range bounds are probed away from term values (boundary convention undocumented); min/max only when a numeric value exists; queries on unregistered fields not observed. Known deviations (no re-index on AddField, stale entries on replacement) are followed with masks so deeper states stay covered.')
CHECKS['C08'] = dict(engine='progenum', category='exploration', section='3/C08',
   technique='exhaustive finite product: 12 operators x 14 element values x all argument shapes, plus every and/or/not expression up to a nesting bound, on the real evaluator and the real pipeline against a reference evaluator',
   text='The full grid of condition operators x element values (missing, null, booleans, zero, negative, fraction, 1e308, numeric text, text, empty string, lists, map) x arguments of every JSON kind (all ordered/unordered/equal bound pairs, wrong-length lists, non-numeric bounds) is evaluated directly by logic.MatchesHasExpression and through V().has() on a stored graph, against a reference evaluator written from operations.md; all and/or/not expressions of nesting <=2 (3 thorough) over 4 atoms are checked by truth table, and De Morgan, double negation and operand order are checked as identities on the implementation.',
   note='Reference evaluator refsem/has.go is the trusted reading of the documentation; without() with a non-list argument is treated as undefined (crash freedom only).')
CHECKS['C05'] = dict(engine='progenum', category='exploration', section='3/C05',
   technique='exhaustive enumeration of the finite product method x transport x credentials x graph x policy on the real interceptor chain (in-memory gRPC server and generated direct clients), against a reference policy evaluator',
   text='Every method listed in the four generated service descriptors (read from the descriptors, so a new RPC is included automatically) is invoked through a real grpc.Server with the production interceptor chain on an in-memory listener and through the generated DirectClient shims used by the HTTP gateway, with 4 credentials x 2 graphs x 10 policies (no accounts, allow-all, deny-all, wildcard-graph, wildcard-action, one per operation class on g1); BulkAdd additionally with 8 element streams. The stub handler must run iff the reference policy grants (user, graph named in the request, operation class); denied calls must fail with an authentication/permission status.',
   note='Operation class and request graph come from an independent rule in c05.go; real Casbin enforcer (model of test/model.conf) and real BasicAuth in the loop; the unexported request-logging interceptors are not in the chain.')
CHECKS['C20'] = dict(engine='progenum', category='exploration', section='3/C20',
   technique='exhaustive enumeration of entry point x argument position x hostile string on the real SQL drivers over a recording database/sql driver; every statement lexed and compared structurally with the benign call',
   text='All 19 entry points of gdbi.GraphDB/GraphInterface that take an id, label or graph name (a reflection audit fails the check if an interface method is neither driven nor known to take no client string) x every client-string position x 14 hostile strings (quotes, doubled quotes, backslashes, comment markers, separators, $1, %s, NUL, unicode, classic injections; for existing-sql both halves of the table-qualified gid) on the real psql and existing-sql drivers. Each recorded statement must lex, have a token structure that the benign call also produces, and carry the client string only as a bound argument or as the literal that decodes to it.',
   note='PostgreSQL lexing rules with standard_conforming_strings=on; the recording driver returns empty result sets, so row-dependent follow-up statements are not reached. Interpolation sites are listed one by one in known_findings.txt; a new site is a fresh violation.')
CHECKS['C16'] = dict(engine='histmc', category='exploration', section='3/C16',
   technique='exhaustive finite product position x atom (and ordered atom pairs, with deletes) executed on the real GripServer handlers and GraphInterface, compared with the reference graph model through the full observation battery',
   text='Nine positions (graph name, vertex gid/label, edge gid/label/from/to, property name, property value) x 29 hostile strings (separator and control bytes, invalid UTF-8, reserved words used internally, prefixes of one another, unicode, 300 bytes) or 17 JSON values (nesting, empty containers, numeric extremes, null), each through the server handlers and directly; then every ordered pair of distinct atoms at the identifier positions (all positions when thorough), with and without deleting the first. Accepted => the element reads back identical through lookup, listings, adjacency, label scans/lists and nothing else in any graph changes; rejected => nothing changes at all.',
   note='Acceptance itself is the implementation\'s choice. kvgraph over memkv. Refused strings are not used as probe ids (they cannot be stored); stale label-index entries after deletes are charged to C03 only.')
CHECKS['C01'] = dict(engine='progenum', category='exploration', section='3/C01',
   technique='bounded-exhaustive enumeration of all well-typed statement sequences up to a length bound x fixture graphs, executed through the production compiler and pipeline and compared with a reference interpreter; all ill-typed sequences up to length 3 must be rejected',
   text='Every well-typed program of length <=3 (quick; <=4 plus length 5 over a 26-instance core alphabet when thorough) over 6 starts and 59 step instances (moves with 3 label lists, hasLabel/hasId/hasKey, 10 has-conditions incl. reserved, nested and mark keys, as/select, fields, render, path, unwind, distinct, count, limit/skip/range) runs on 6 fixture graphs (empty, single vertex, self loop + parallel edges + isolated vertex, edges with absent endpoints, nested/mixed/missing data, shared edge labels in both directions) through kvgraph.Compiler() and pipeline.Start/Convert; the multiset of rows must equal the reference interpreter written from the documentation; truncation steps are judged by count arithmetic and sub-multiset. Crash-isolated workers attribute a process-killing panic to the exact program.',
   note='refsem is the trusted reading of the docs; combinations the docs leave undefined (reads of undefined marks, path after fields/unwind, distinct/unwind over missing or non-list fields, truncation in the middle of a program) are skipped and counted in the evidence.')
CHECKS['C02'] = dict(engine='progenum', category='exploration', section='3/C02',
   technique='bounded-exhaustive differential execution: production plan (index-start rewrite + load elision) vs literal fully-loaded plan for every statement sequence up to a length bound, on a backend that ignores and one that honours the do-not-load hint',
   text='Every statement sequence of length <=3 (<=4 thorough) over the C01 alphabet widened with filters/projections that read earlier steps or marks runs through core.NewCompiler(db, IndexStartOptimize) and through the same statements compiled one by one with every step forced to load and no optimizer, on fresh stores F2/F4/F5 and on a store with a stale label index, each on real kvgraph and on a wrapper that honours load=false on all read paths; rows must be equal as multisets. Corollaries checked for every program: count(P) equals the number of rows of P; four spellings of a leading label filter and of a leading id filter, followed by every continuation, return identical rows.',
   note='Order-dependent programs (truncation or distinct followed by further steps) are skipped; a final truncation is compared by row count. The literal plan uses only exported functions of engine/core and engine/pipeline.')
CHECKS['C06'] = dict(engine='progenum', category='exploration', section='3/C06',
   technique='bounded-exhaustive enumeration of hostile requests in crash-isolated worker processes; a worker death is attributed to the exact request and classified by panic message and first grip frame',
   text='Every statement sequence of length <=3 over 4 starts and ~150 hostile step instances (condition values of every JSON kind for every operator, inputs of the index-start rewrite, undefined marks, empty/duplicate/degenerate aggregations over empty, non-numeric and malformed fields, negative and inverted ranges, null-producing moves followed by every step, set/increment/mark/jump, malformed jsonpath keys, empty sub-messages) on an empty and two populated graphs through the production compiler and pipeline; every BulkAdd stream up to length 2 (3 thorough) over 4 element kinds x {existing, missing, schema, empty} graph names and 17 unary requests per graph name through the real GripServer handlers. The only oracle: the process survives and the call returns.',
   note='A request that does not return within the deadline is logged as undecided (C07 decides termination). Requests that extend an already crashing request, or contain a step instance that crashed 3 requests, are skipped and counted.')
CHECKS['C19'] = dict(engine='progenum', category='exploration', section='3/C19',
   technique='bounded-exhaustive enumeration of all multisets of field values up to a size bound x aggregation instances and pairs, run through the production pipeline and compared with a direct computation over the same rows',
   text='All multisets of size <=3 (quick, 286) / <=4 (thorough, 1001) over {missing, 1, 2.5, -3, 0, two strings, boolean, list, map} stored one vertex per value; V().aggregate() with count, term (size 0/1/2), histogram (interval 1/2/5), percentile ([0,25,50,100]), field($._data), type, each alone and all 45 pairs in one step. Count, term frequencies and size limiting (counts of the kept buckets = the top counts), histogram alignment/coverage/sum, field key counts, NUMERIC/STRING type counts, percentile monotonicity and range, and independence of each result from its companion are checked as the property states them.',
   note='Percentile values themselves are not compared (t-digest approximation); under ties only the counts of size-limited term buckets are compared. Runs in crash-isolated workers.')
CHECKS['C18'] = dict(engine='histmc', category='model_checking', section='3/C18',
   technique='explicit enumeration of every element stream up to a length bound executed on the real GripServer.BulkAdd and, element by element, on the real AddVertex/AddEdge handlers over an identical store; final states compared through the full observation battery',
   text='All streams of length <=3 (quick, 1111) / <=4 (thorough, 11111) over 10 element kinds (valid vertices in two graphs, relabel of an existing id, invalid vertex, valid/invalid edge, edge without id, element for a missing graph, element for a schema graph) go through GripServer.BulkAdd with a stub stream; the resulting store must be observably identical to the store obtained by sending the same elements one at a time, InsertCount/ErrorCount must equal the numbers accepted/rejected one by one; the same streams run behind accounts.BulkWriteFilter with a policy forbidding one graph. util.StreamBatch is enumerated over all sequences up to 4 (5) of 5 element kinds x batch sizes 1,2,3 and uniform streams around the literal sizes 50/100/200 against recording add functions (order, content, batch size, error-ness).',
   note='Differential against the implementation\'s own one-by-one path (the property\'s definition), so C03\'s sequential defects are not charged again. Goroutine interleavings inside BulkAdd are not controlled here (C17 explores them).')
CHECKS['C11'] = dict(engine='histmc', category='model_checking', section='3/C11',
   technique='explicit-state breadth-first search over submit/delete/restart histories on the real GripServer job handlers with FSJobStorage, plus bounded-exhaustive enumeration of result types x sizes and of all split points of all well-typed programs for resume',
   text='A1: nine traversal families (vertices, edges, count, selection, render, path, aggregation, unloaded elements, marks) x graph sizes 0,1,3,4,5,9,40,41,45 (serializer worker pool 4, buffers 40) are submitted, awaited and read back: rows and Status.Count must equal the direct run. A2: every split Q1.Q2 of every well-typed order-independent program of length <=3 (4 thorough) over the core alphabet on two fixtures: submit Q1, ResumeJob with Q2 must equal running Q directly. B: every history of depth <=3 (4) over submit (5 queries x 2 graphs), delete and restart; after every step ListJobs, SearchJobs for 5 probe queries, GetJob and ViewJob of every job are compared with a list model (prefix rule, >=2 steps, survival across restart, deletion).',
   note='Job storage is injected into GripServer by the verif-tagged overlay file engines/hooks/server_export_verif.go; asynchronous completion is awaited by polling (the race itself belongs to C17).')
CHECKS['C14'] = dict(engine='progenum', category='exploration', section='3/C14',
   technique='bounded-exhaustive enumeration of statement sequences compiled by both compilers (typing agreement) and exhaustive product of has-expressions whose emitted $match document is interpreted under standard MongoDB semantics and compared with the core evaluator',
   text='Typing: every statement sequence of length <=4 (5 thorough) over 6 starts and 59 step instances, each also with a trailing aggregate, is compiled by mongo.NewCompiler (no database needed) and core.NewCompiler: acceptance, result type and mark types must agree. Filters: for 12 operators x every argument shape of the C08 grid and for every and/or/not expression of nesting <=2 (3) over atoms on which both sides agree, the document produced by the real convertHasExpression is evaluated by a 200-line interpreter of $and/$or/$not/$eq/$ne/$gt/$gte/$lt/$lte/$in on 10 scalar documents and must select exactly what logic.MatchesHasExpression keeps.',
   note='mongoeval is the trusted statement of standard MongoDB semantics (type brackets, null = missing for equality, $ne/$not match missing fields). convertHasExpression is reached through a verif-tagged overlay file; no MongoDB server is involved.')
CHECKS['C15'] = dict(engine='progenum', category='exploration', section='3/C15',
   technique='bounded-exhaustive differential enumeration: table sets x mappings served by the real gripper stack over an in-memory gRPC connection, every well-typed program up to a length bound compared with the reference interpreter on the graph materialised by the property\'s definition',
   text='10 link-table contents (normal, missing/empty/dangling endpoints on either side, repeated links; 36 more pairs when thorough) x 6 mappings (distinct labels, shared label, one id prefix a prefix of the other, reversed link direction, two edge types over one table, same label in both directions) are exposed through SimpleTableServicer + bufconn + gripper.NewTabularGraph; every well-typed program of length <=3 (4) over 5 starts (V(), V(ids), E(), E(id)) and 25 steps with emphasis on leading and repeated hasLabel must return the rows that refsem computes on one-vertex-per-row / one-edge-per-link-row; every write call must be refused.',
   note='refsem is the interpreter validated against kvgraph by C01. A traversal without an answer in 10 s on these tiny tables is reported as such.')
NA_REASON = 'check not built yet in this session (planned in DESIGN.md section 3); nothing is claimed for it'

m = {
 'version': 1,
 'setup_cmd': './setup.sh',
 'hooks': {
   'guard': 'verif',
   'enable': 'go build -tags verif -overlay .work/overlay.json (build.sh generates the overlay from engines/hooks/*_export_verif.go and, for the scheduler checks, from the current /repo sources rewritten by tools/instr; nothing is committed to /repo)',
   'baseline_off_cmd': './baseline.sh',
   'source_commits': [],
   'add_only': True,
 },
 'engines': [
   {'name': 'histmc', 'path': 'harness/checks', 'serves_properties': ['C03','C04','C09','C10','C11','C16','C18'], 'kind_free_text': 'explicit-state BFS over API histories executed on the real code vs a reference model'},
   {'name': 'progenum', 'path': 'harness/checks', 'serves_properties': ['C01','C02','C06','C08','C14','C15','C19','C20','C05'], 'kind_free_text': 'bounded-exhaustive enumeration of programs/inputs/configurations executed on the real code vs reference semantics'},
   {'name': 'gosched', 'path': 'engines/vsched', 'serves_properties': ['C07','C12','C13','C17'], 'kind_free_text': 'controlled cooperative scheduler injected into the real sources by AST rewriting + stateless DFS with preemption bounding and state cache'},
 ],
 'checks': [],
 'not_applicable': [],
 'notes': 'All checks: ./run <ID> quick|thorough. Known findings and fixed defects: known_findings.txt. Design: DESIGN.md.',
}
for i in ids:
    if i in CHECKS:
        c = CHECKS[i]
        m['checks'].append({
          'property_id': i,
          'quick_cmd': f'./run {i} quick',
          'thorough_cmd': f'./run {i} thorough',
          'evidence_file': f'evidence/{i}.json',
          'replay_cmd_template': f'./run {i} --replay {{path}}',
          'engine': c['engine'],
          'level_claimed': {'category': c['category'], 'text': c['text'], 'design_ref': c['section']},
          'level_note': c['note'],
          'technique': c['technique'],
        })
    else:
        m['not_applicable'].append({'property_id': i, 'reason': NA_REASON})
json.dump(m, open(os.path.join(ROOT, 'MANIFEST.json'), 'w'), indent=1)
print('checks:', [c['property_id'] for c in m['checks']])
